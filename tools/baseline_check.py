#!/usr/bin/env python3
"""Runs the repository's baseline suite (guard off) and compares with BASELINE.json stable_pass."""
import json, subprocess, sys, os, tempfile, xml.etree.ElementTree as ET
out = sys.argv[1] if len(sys.argv) > 1 else '/tmp/baseline.junit.xml'
env = dict(os.environ); env.pop('RSOCKET_PY_VERIF', None)
keep = None
if os.path.exists('/repo/results.csv'):
    keep = open('/repo/results.csv', 'rb').read()
rc = subprocess.call('cd /repo && /venv/bin/python -m pytest -ra -q -p no:cacheprovider --timeout=900 '
                     '--continue-on-collection-errors --junitxml=%s > %s.log 2>&1' % (out, out), shell=True, env=env)
if keep is not None:
    open('/repo/results.csv', 'wb').write(keep)
base = json.load(open('/root/.vp/BASELINE.json'))
stable = set(base['stable_pass'])
passed = set()
for tc in ET.parse(out).getroot().iter('testcase'):
    name = '%s::%s' % (tc.get('classname'), tc.get('name'))
    if not any(ch.tag in ('failure', 'error', 'skipped') for ch in tc):
        passed.add(name)
missing = sorted(stable - passed)
print('pytest rc=%s passed=%d stable=%d stable-not-passed=%d' % (rc, len(passed), len(stable), len(missing)))
for m in missing:
    print('  NOT PASSED:', m)
sys.exit(1 if missing else 0)
