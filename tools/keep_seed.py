#!/usr/bin/env python3
"""Confirms a seeded change (patch applies to a scratch worktree of /repo HEAD, the unedited test subset passes with it, the
demo fails with it and passes without it), runs every check's quick tier against it, and stores it as
/verif/seeded/<prop>-<k>/ {patch.diff, demo.py, meta.json}.   usage: keep_seed.py <seed dir> <prop> <k>"""
import json, os, shutil, subprocess, sys, tempfile, time
src, prop, k = sys.argv[1], sys.argv[2], sys.argv[3]
dst = '/verif/seeded/%s-%s' % (prop, k)
patch = os.path.join(src, 'patch.diff'); demo = os.path.join(src, 'demo.py')
original = None
if os.path.exists(os.path.join(src, 'patch.ported.diff')):
    # the author's patch no longer applies because a later fix: commit changed the surrounding lines; same change, re-based by hand
    original, patch = patch, os.path.join(src, 'patch.ported.diff')
meta = json.load(open(os.path.join(src, 'meta.json'))) if os.path.exists(os.path.join(src, 'meta.json')) else {}
wt = tempfile.mkdtemp(prefix='ks-', dir='/tmp'); os.rmdir(wt)
subprocess.check_call(['git', '-C', '/repo', 'worktree', 'add', '-q', '--detach', wt, 'HEAD'])
rec = {'property': prop, 'summary': meta.get('summary'), 'needs': meta.get('needs'), 'files': meta.get('files'),
       'author': 'independent sub-agent given only the property text and a scratch worktree',
       'repo_commit': subprocess.check_output(['git', '-C', '/repo', 'rev-parse', '--short', 'HEAD']).decode().strip()}
try:
    if subprocess.run(['git', '-C', wt, 'apply', patch]).returncode:
        print('PATCH DOES NOT APPLY'); sys.exit(3)
    # 1. the unedited suite (reliable subset: no quart fixtures, no wall-clock assertions) passes with the change
    t0 = time.time()
    cmd = ('cd %s && timeout 1500 /venv/bin/python -m pytest -q -p no:cacheprovider --timeout=60 -k "not quart" '
           'tests/rsocket tests/rx_support tests/test_reactivex --deselect tests/test_reactivex/test_concurrency.py '
           '--deselect "tests/rsocket/test_request_stream.py::test_request_stream_and_disconnect_client_after_first_message" '
           '--deselect tests/rsocket/test_cli_command.py::test_execute_command_websocket_request '
           '> _tests.log 2>&1; tail -1 _tests.log' % wt)
    out = subprocess.run(cmd, shell=True, capture_output=True, text=True).stdout.strip()
    bad_tests = [l.split(' - ')[0] for l in open(wt + '/_tests.log') if l.startswith(('FAILED tests', 'ERROR tests'))]
    rec['tests_failed_with_change'] = bad_tests
    rec['tests_with_change'] = {'cmd': 'pytest -k "not quart" tests/rsocket tests/rx_support tests/test_reactivex (minus 3 known-flaky / contaminating tests)',
                                'result': out, 'wall_s': round(time.time() - t0)}
    # 2. demo
    d = {}
    for label, pp in (('changed', wt), ('unchanged', '/repo')):
        r = subprocess.run(['timeout', '120', '/venv/bin/python', demo], env=dict(os.environ, PYTHONPATH=pp),
                           capture_output=True, text=True, cwd=pp)
        d[label] = {'exit': r.returncode, 'last_line': ((r.stdout + r.stderr).strip().splitlines() or [''])[-1][:300]}
    rec['demo'] = d
    # 3. every check, quick tier
    ids = [c['property_id'] for c in json.load(open('/verif/MANIFEST.json'))['checks']]
    env = dict(os.environ, RV_REPO=wt, RV_OUT=wt + '/_rv_out')
    res = {}
    for i in ids:
        o = subprocess.run(['/venv/bin/python', '-m', 'rv', 'check', i, '--tier', 'quick'], env=env, cwd='/verif',
                           capture_output=True, text=True)
        cl = sorted({l.strip().split(' mechanism=')[0].replace('clause=', '') for l in o.stdout.splitlines() if l.startswith('  clause=')})
        res[i] = {'exit': o.returncode, 'clauses': cl[:5]}
    rec['checks_quick'] = res
    rec['caught_by'] = [i for i in ids if res[i]['exit'] == 1]
    rec['ran'] = 'tools/keep_seed.py: scratch worktree of /repo HEAD + git apply; test subset; demo on changed/unchanged tree; all 20 quick checks with RV_REPO'
    ok = ('passed' in out and not bad_tests) and d['changed']['exit'] != 0 and d['unchanged']['exit'] == 0
    rec['confirmed'] = bool(ok)
    os.makedirs(dst, exist_ok=True)
    shutil.copy(patch, dst + '/patch.diff'); shutil.copy(demo, dst + '/demo.py')
    if original:
        shutil.copy(original, dst + '/patch.original.diff')
        rec['ported'] = 'patch.diff is the author\'s change (patch.original.diff) re-based by hand onto /repo HEAD %s' % rec['repo_commit']
    if original:
        rec['ported'] = 'patch.diff is the author\'s change (patch.original.diff) re-based by hand onto /repo HEAD %s' % rec['repo_commit']
    json.dump(rec, open(dst + '/meta.json', 'w'), indent=1)
    print('%s-%s confirmed=%s tests=[%s] demo=%s/%s caught_by=%s' % (prop, k, ok, out[-60:], d['changed']['exit'], d['unchanged']['exit'], rec['caught_by']))
finally:
    subprocess.call(['git', '-C', '/repo', 'worktree', 'remove', '--force', wt])
