#!/usr/bin/env python3
"""Regenerates /verif/MANIFEST.json from the table below (and validates it)."""
import json
import os
import sys

HERE = os.path.dirname(os.path.dirname(os.path.realpath(__file__)))

PY = '/venv/bin/python'

CHECKS = {
    'C01': dict(
        category='exploration',
        technique='offline exactly-once / order / integrity / correlation checker over a delivery ledger recorded at both application boundaries; real endpoints on simulated links under virtual time',
        text='Two real endpoints (RSocketClient, RSocketServer) joined by an in-memory link (real TransportTCP on a '
             'StreamReader, a message transport, or one of the repository\'s websocket transports on scripted sockets) run 1..12 concurrent interactions of all five models started by '
             'either side with unique pseudo-random payloads from 0 bytes to many fragments; link latency, chunking, '
             'read size, drain blocking, handler and publisher pacing are drawn per case. Every payload handed to the '
             'library must be delivered exactly once, intact, in order, to the matching handler/subscriber only. '
             'Held-on-explored; evidence reports distinct schedule signatures.',
        note='Trusts the recording applications and the virtual-time loop (stock asyncio scheduling, only the clock is '
             'virtual). The websockets / aiohttp / asyncwebsockets / quart / channels transports run over scripted sockets (fault-free); aioquic / HTTP3 are not executed.',
        design='4/C01'),
    'C05': dict(
        category='exploration',
        technique='online trace checker: per-stream FIFO of frames entering the send path vs. reassembled fragment runs at Transport.send_frame',
        text='The order in which frames enter each endpoint\'s send path is recorded by wrapping send_frame / '
             'send_priority_frame per instance and compared per stream with the tap at Transport.send_frame: a fragment '
             'run must continue with the next slice of the queued frame at the head of that stream\'s FIFO until its '
             'last fragment; any other frame of the stream inside a run, truncation or reordering is a witness. Workload '
             'biased to bursts of multi-fragment elements followed at once by completion / error / REQUEST_N / CANCEL, '
             'with drain stalls. Held-on-explored.',
        note='SETUP is the only frame allowed to overtake (stream 0). The deciding situation (frames queued behind an '
             'unfinished run of the same stream) is counted; zero makes the run inconclusive.',
        design='4/C05'),
    'C06': dict(
        category='exploration',
        technique='conservation monitor (credit ledger) over the producing endpoint\'s own tap, checked after every send; sequence equality of application-granted vs transmitted credit',
        text='Every producing side is one of the library\'s own sources (generator, async generator, Rx v3 / ReactiveX '
             'v4 plain observable, back-pressure factory). After every element sent the ledger requires elements sent '
             '<= credit received so far on that stream (from that endpoint\'s local view); at quiescence every element '
             'covered by credit must have been delivered; REQUEST_N / initial n on the wire must equal the values the '
             'application passed. Held-on-explored.',
        note='Credit counted from the first fragment of the request frame; saturates at 2^31-1.',
        design='4/C06'),
    'C02': dict(
        category='exploration',
        technique='round-trip / canonical-form oracle over enumerated boundary values and seeded random frames, differential across codec backends in two processes',
        text='Every generated frame value is encoded, decoded (fields compared), re-encoded (bytes compared), written '
             'incrementally and through TransportTCP.send_frame (bytes and length prefix compared) in this process '
             '(cbitstruct) and in a helper process with cbitstruct blocked (native struct); per-frame digests must agree. '
             'Boundary product complete per type in the thorough tier. Held-on-explored.',
        note='Frame values are built by attribute assignment as frame_builders does; cbitstruct is a black box (no memory '
             'safety claim); an independent mini codec is cross-checked and disagreements are counted, not judged.',
        design='4/C02'),
    'C03': dict(
        category='exploration',
        technique='measurement + reassembly oracle over an exhaustive (data length x metadata length) window per fragment size, framing mode and frame variant',
        text='Every fragment produced by Frame.get_next_fragment is serialised as the transport would, measured against '
             'the limit, checked for type/flags/ordering, parsed back with the real decoder and reassembled with a real '
             'FrameFragmentCache; the window 0..3*limit+8 is enumerated completely for sizes 64..72,100,127..129 '
             '(thorough), plus random large sizes. Held-on-explored; one recorded known finding.',
        note='Frames are built with rsocket.frame_builders; wire size = len(serialize()) + 3 on byte-stream transports.',
        design='4/C03'),
    'C04': dict(
        category='exploration',
        technique='reference splitter oracle over seeded record sequences x enumerated partitions of the byte stream; step-bounded decoder',
        text='Each generated sequence of valid and malformed records is decoded under many partitions (all 2-partitions '
             'of short streams, all 3-partitions of very short ones, single bytes, cuts inside every length prefix, '
             'random k-partitions) by FrameParser.receive_data, through TransportTCP.next_frame_generator on a '
             'StreamReader with several read sizes, in message mode, and through the receive loop of the repository\'s real '
             'websocket transports (websockets, aiohttp, asyncwebsockets, quart, channels; both roles) on a scripted socket; outputs must equal the per-record reference '
             'and the decoder must stay within a logical step bound. Held-on-explored.',
        note='Expected output of a record = parse_or_ignore on that record alone (real decoder); the async generator is '
             'driven synchronously.',
        design='4/C04'),
    'C07': dict(
        category='exploration',
        technique='online trace-specification monitor (subscriber callback grammar, exactly-once future resolution) over exhaustively enumerated bounded histories against a scripted raw peer, plus hostile random mixes with connection cuts',
        text='One real endpoint is driven against a wire-level raw peer through every history (legal peer frames, local '
             'application actions incl. repeated / late request() and cancel(), publisher and future signals, a '
             'connection end) up to depth 4/4/3 (quick) or 6/5/4 (thorough) for request-response / stream / channel in both '
             'roles, as client and as server, under three spacings and both framings. Each subscriber log must match '
             'on_subscribe next* terminal? and each library future is watched through a recording Future for a second '
             'resolution or for being left pending after a terminating event. Held-on-explored, exhaustive up to the bound.',
        note='Histories come from an abstract legality model of the peer; futures are observed via a Future subclass '
             'installed by the harness loop for rsocket.helpers.create_future.',
        design='4/C07'),
    'C08': dict(
        category='exploration',
        technique='online legality automaton over each endpoint\'s own ordered sends (judged when the frame enters the send path) and receptions; hostile-legal random mixes + exhaustive bounded histories',
        text='Every frame a real endpoint decides to send is judged by an automaton holding, per stream, the role, kind and '
             'open/closed state of both directions as that endpoint itself has seen them: SETUP first and once, parity, '
             'streams begin with a request frame, role-allowed frame types, positive initial n, no payload after own '
             'completion, nothing after own ERROR / requester CANCEL / both directions complete, connection frames on '
             'stream 0 only. Workload: hostile-legal E-mix (cancels at any instant, errors, never-answering responders, '
             'late no-op actions, fragmentation) and the C07 history enumeration. Held-on-explored; one known finding.',
        note='Frames are judged at the moment they enter the send path (a queued frame cannot be recalled, like bytes in a '
             'socket buffer); SETUP-first and decodability are judged on the wire.',
        design='4/C08'),
    'C09': dict(
        category='exploration',
        technique='offline checker over recorded histories at both application boundaries and both taps (exactly-one CANCEL, nothing after cancel, producer cancelled, no production after the CANCEL was received, bystanders intact)',
        text='E-mix cases with cancelling interactions at every moment relative to request, credit, elements in flight and '
             'completion (inside on_subscribe, after the k-th element, after a delay; future cancel; responder-side cancel '
             'of a channel direction) against every library source, with link batching so CANCEL shares a read with the '
             'request and 1..3 bystander interactions that must still satisfy the C01 ledger; plus the C07 history '
             'enumeration with local cancel / peer CANCEL at every position. Held-on-explored.',
        note='CANCEL frames are counted where they enter the send path. A future-based cancel that loses the race against '
             'the terminating frame legitimately sends no CANCEL (C08 forbids it).',
        design='4/C09'),
    'C10': dict(
        category='exploration',
        technique='invariant at a quiescent point: stream table and reassembly cache of both endpoints read when every interaction of the run has terminated; stream-id reuse probe by the raw peer',
        text='E-mix "endings" cases (every way an interaction can end, both roles, with/without fragmentation) and the C07 '
             'history enumeration; a run is judged only when every interaction has terminated by the statement\'s list. '
             'Open streams or partial frames left at quiescence, or a REJECTED answer to a fresh request on the same id, '
             'are witnesses. Held-on-explored; one known finding (channel ERROR / requester CANCEL).',
        note='Reads two private tables (same observation as the suite\'s assert_no_open_streams); endings are judged at '
             'quiescence before the harness closes the connection.',
        design='4/C10'),
    'C11': dict(
        category='fault_enumeration',
        technique='fault enumeration over a recorded reference execution: cut after every byte offset / message index per direction (EOF and error), explicit close at every instant, n-th write failure, raising application code inside the clean-up; post-fault oracle on futures, subscribers, publishers, on_close, tap and tasks',
        text='Deterministic scenarios with pending interactions in both roles are executed once to record delivered bytes '
             'per direction, frame boundaries and instants, then re-executed once per fault point. After a 12 s virtual '
             'settle: nothing handed out before the fault is left pending or failed twice, producing publishers / '
             'handler futures are cancelled, on_close was delivered exactly once per endpoint, nothing is sent any more '
             '(keepalives included), tasks are finished. Quick: frame boundaries +-1 and a stride; thorough: every offset. '
             'One known finding (loss unnoticed while a handler is suspended).',
        note='Pending = API call made before that endpoint delivered on_close. Scenarios use fixed link knobs so each '
             'fault point replays the same execution up to the fault.',
        design='4/C11'),
    'C12': dict(
        category='exploration',
        technique='step-bounded decoder fuzzing; probe-based containment oracle (probe stream + probe requests before/during/after hostile stimuli, reaction filter on the tap, task liveness); fault injection into application code at every handler entry point and callback',
        text='(a) 200k seeded hostile byte strings per quick run into FrameParser in both framings under a logical step bound. '
             '(b) a real server / client with a probe stream open receives 1..5 hostile stimuli from a 45-entry catalogue '
             'while probe requests are issued before, during and after; probes must be answered byte-exactly, the open '
             'stream must continue, the only reaction allowed is ERROR on the offending stream (0 for connection-level), '
             'tasks stay alive, on_close is not called; half of these runs use the repository\'s websocket transports on '
             'scripted sockets, with TEXT / PING / empty websocket messages as additional stimuli and the transport\'s own '
             'receive loop watched. (c) E-mix runs with one interaction whose application code raises '
             '(14 failure modes) next to bystanders that must satisfy the C01 ledger. (d) routing handler and both Rx '
             'handler adapters with raising / healthy application code at each of the five entry points. Held-on-explored.',
        note='Hostile stimuli never use the probe stream ids.',
        design='4/C12'),
    'C13': dict(
        category='exploration',
        technique='reference-model monitor over exhaustively enumerated allocator histories + wire monitor on real endpoints',
        text='StreamControl is driven through every allocate/register/finish history up to a depth bound on reduced id '
             'spaces (both parities) and through long random histories across the 31-bit wrap point; every returned id is '
             'compared with a reference allocator written from the property.  Held-on-explored, not a proof.',
        note='Trusts the 25-line reference allocator and CPython; id space reduced via _maximum_stream_id as the '
             'repository\'s own tests do.',
        design='4/C13'),
}

CHECKS['C14'] = dict(
    category='exploration',
    technique='executable reference model (lease state machine) replayed over the observed order of LEASE receptions and API calls under a virtual clock; must predict exactly which requests enter the send path, in which order, under which lease',
    text='A lease-honouring real client runs against a raw server sending seeded LEASE sequences at scripted virtual '
         'times interleaved with requests of all four types, including requests exactly at expiry -1us/0/+1us and '
         'bounded retention queues. Online clauses (no request before the first lease, not more than granted, none '
         'after ttl, at most once) plus equality with the reference model (FIFO release, nothing withheld). Responder '
         'clause: LEASE frames of a real server equal the leases its publisher emitted (count, ttl in ms). Held-on-explored.',
    note='wall-clock reads of the library (datetime.now) are redirected to the virtual clock by the harness; verified by '
         'a self-test at start-up.',
    design='4/C14')
CHECKS['C15'] = dict(
    category='exploration',
    technique='timed trace monitor under a virtual clock: echo multiset/order oracle, period-gap oracle, and two-sided timeout oracle asserted only on runs whose measured arrival gaps make the clause applicable',
    text='Echo: seeded KEEPALIVE sequences to a real client and a real server; the endpoint must send exactly the owed '
         'echoes (no respond flag, same data, in order) and nothing else. Periodic/timeout: a real client with period P '
         'and lifetime L against a raw server with scripted acknowledgement patterns; send gaps must lie in [P, P+eps]; '
         'no timeout callback in runs whose arrival gaps were all <= L; a callback by last arrival + 2L + eps when '
         'silent longer. Held-on-explored.',
    note='eps = 1 ms virtual + configured link delay.',
    design='4/C15')
CHECKS['C16'] = dict(
    category='exploration',
    technique='wire monitor with an independent decoder on the first frames of every new connection vs. the configuration; exhaustive product of server-side setup conditions against a recording handler',
    text='Client: seeded configurations (timedeltas with sub-second parts, MIME types as enum/str/bytes/custom names, '
         'payloads, lease) with suspending connect() / provider and 0..5 requests of every type issued by other tasks at '
         'every tick of the connection sequence; the first frame must be the single SETUP and every decoded field must '
         'equal the configuration. Server: all 256 combinations of {framing, resume, lease, publisher, on_setup raises, '
         'payload} and RESUME frames: exactly the matching ERROR on stream 0 and the right number of on_setup calls with '
         'the right arguments. Held-on-explored; server product exhaustive.',
    note='timedeltas in whole milliseconds.',
    design='4/C16')
CHECKS['C17'] = dict(
    category='exploration',
    technique='post-reconnect oracle over per-connection taps and recorded application state: seeded sequences of connection endings and reconnect requests against fresh real servers under a virtual clock',
    text='A real client whose provider yields a fresh link to a fresh real server per connection goes through 1..3 rounds of '
         '{server EOF, transport error, silent server (keepalive timeout), explicit reconnect while healthy} with '
         'reconnect() called from on_close, on_keepalive_timeout or an unrelated task at seeded instants and with '
         'interactions pending. After each round: old transport closed, old requests completed or failed, provider '
         'asked, SETUP first on the new transport, stream ids restart at 1, a KEEPALIVE within one period, a fresh '
         'request answered. Held-on-explored.',
    note='served = answered within 30 virtual seconds.',
    design='4/C17')
CHECKS['C18'] = dict(
    category='exploration',
    technique='round-trip oracle over seeded composite-metadata values with boundary lengths, differential across codec backends; exhaustive table bijection and length-limit sweeps',
    text='Lists of composite entries of every kind are encoded with the public helper constructors, decoded, compared '
         'entry by entry, and re-encoded (bytes compared), in this process and in a helper with cbitstruct blocked. '
         'The well-known MIME and authentication tables are checked for bijection exhaustively and name/tag length '
         'limits are swept exhaustively (1..140, 0..270). Held-on-explored.',
    note='Custom names as bytes; sentinel enum members with negative ids excluded; raw bodies not generated for the four '
         'typed MIME types.',
    design='4/C18')

CHECKS['C19'] = dict(
    category='exploration',
    technique='reference-dispatcher oracle (15 lines) over sampled / enumerated route tables x generated requests, with recording route coroutines and a bystander request after every request',
    text='A real server with RoutingRequestHandler + RequestRouter built from a generated table (per interaction type: none '
         '/ "a" / "a"+"b"; unknown-route handler or not; six handler signatures; verifier on/off) serves a real client. '
         'For each request (type x route x authentication x position of the routing entry) the recording coroutine that ran, '
         'the arguments it received and what the requester got must equal the reference dispatcher\'s prediction; with a '
         'verifier no coroutine may run without an accepted authentication entry; a bystander request must still be '
         'served. Quick: 700 sampled tables x 24 requests; thorough: all 15552 tables x 40 requests. Held-on-explored.',
    note='The verifier accepts simple(user,pass) and bearer(good).',
    design='4/C19')
CHECKS['C20'] = dict(
    category='exploration',
    technique='differential monitor against the scripted ground truth of the core API: recording observers and delegate handlers on both sides, credit-window monitor on the requester tap, C06 credit ledger on the responder tap, feedback-subject vs wire-credit sequence equality, disposal oracle',
    text='Seeded scenarios (model, element counts 0..30 per direction, request limit, error position, disposal moment, cold '
         '/ hot / back-pressure-factory observables, link knobs) driven through the Rx v3 or ReactiveX v4 client adapter, '
         'handler adapter or both. Observer logs must equal the ground truth in both directions; outstanding credit at '
         'the requester never exceeds the limit and every grant equals it; responder emission obeys the credit ledger; '
         'a factory\'s feedback subject sees exactly the wire credits; disposal yields exactly one CANCEL and cancels the '
         'peer\'s source; fire-and-forget, metadata-push and setup reach the delegate exactly once. Held-on-explored.',
    note='Hot sources start feeding once they have an observer (elements emitted before any subscription are lost with '
         'or without the adapters).',
    design='4/C20')

PENDING_REASON = 'check not built yet in this working session (planned, see DESIGN.md section 4)'

ALL = ['C%02d' % i for i in range(1, 21)]


# generators added in round 6 (DESIGN 10.1 / 10.5)
ROUND6 = {
    'C02': 'Also: the incremental form of a frame object that was encoded or decoded before and then given another payload.',
    'C08': 'Also: the C17 reconnect workload judged per connection (SETUP first and once, a stream begins with a request '
           'frame on this connection, odd ids).',
    'C09': 'Also: requests served through RequestRouter whose route returns a pending future, task or publisher, cancelled '
           'while pending; half of the link draws on the repository\'s websocket transport glue.',
    'C13': 'Also: an id handed out to a request_stream / request_channel publisher that is subscribed only after the '
           'allocator has wrapped.',
    'C14': 'Also: the server as the lease-honouring requester; half of the link draws on the websocket transport glue.',
    'C15': 'Also: a client that reconnects from its keepalive-timeout callback to servers that fall silent at once or '
           'after a while, with timers firing late by 0 / 20 us / 1 ms: the callback is due on every connection.',
    'C16': 'Half of the client-side link draws on the websocket transport glue.',
    'C17': 'Also: a client that grants leases too; a request of the new server (which honours leases) must be served on '
           'every connection.',
    'C19': 'Half of the link draws on the websocket transport glue.',
    'C20': 'Also: a core-API requester granting credit in several back-to-back request() calls against the handler '
           'adapters; half of the link draws on the websocket transport glue.',
}


def main():
    checks = []
    for pid in ALL:
        c = CHECKS.get(pid)
        if not c:
            continue
        if pid in ROUND6:
            c = dict(c, text=c['text'] + ' ' + ROUND6[pid])
        checks.append({
            'property_id': pid,
            'quick_cmd': '%s -m rv check %s --tier quick' % (PY, pid),
            'thorough_cmd': '%s -m rv check %s --tier thorough' % (PY, pid),
            'evidence_file': 'evidence/%s.json' % pid,
            'replay_cmd_template': '%s -m rv replay {path}' % PY,
            'engine': 'rv',
            'level_claimed': {'category': c['category'], 'text': c['text'], 'design_ref': c['design']},
            'level_note': c['note'],
            'technique': c['technique'],
        })
    na = [{'property_id': pid, 'reason': PENDING_REASON} for pid in ALL if pid not in CHECKS]
    manifest = {
        'version': 1,
        'setup_cmd': '%s -m rv.selfcheck' % PY,
        'hooks': {
            'guard': 'RSOCKET_PY_VERIF',
            'enable': 'no in-repo hooks: the harness instruments from outside (custom event loop, Transport '
                      'implementations, class-level wrappers installed in the harness process). The guard is set by '
                      'the harness for uniformity and read by nothing in /repo.',
            'baseline_off_cmd': 'cd /repo && /venv/bin/python -m pytest -ra -q -p no:cacheprovider --timeout=900 '
                                '--continue-on-collection-errors',
            'source_commits': [],
            'add_only': True,
        },
        'engines': [
            {'name': 'rv', 'path': 'rv/', 'serves_properties': sorted(CHECKS),
             'kind_free_text': 'runtime monitors over the real library executed on a virtual-time asyncio loop with '
                               'simulated links, a raw wire-level peer and recording applications'},
        ],
        'checks': checks,
        'not_applicable': na,
        'notes': 'All checks: /venv/bin/python -m rv check <ID> --tier quick|thorough (VERIF_SEED, VERIF_TIER honoured). '
                 'Exit 0 held-on-explored, 1 violation, 2 inconclusive. Known findings: known_findings.json.',
    }
    path = os.path.join(HERE, 'MANIFEST.json')
    with open(path, 'w') as fh:
        json.dump(manifest, fh, indent=1)
        fh.write('\n')
    try:
        import jsonschema
        schema = json.load(open('/root/.vp/MANIFEST.schema.json'))
        jsonschema.validate(manifest, schema)
        print('MANIFEST.json valid; %d checks, %d not_applicable' % (len(checks), len(na)))
    except ImportError:
        print('jsonschema not available; wrote MANIFEST.json unvalidated')


if __name__ == '__main__':
    sys.exit(main())
