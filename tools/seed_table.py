#!/usr/bin/env python3
"""Prints the markdown table of /verif/seeded/*/meta.json for DESIGN.md section 10.5 (uses the `reverified` record written
by tools/reverify_seeds.py when present, else the record of the first evaluation by tools/keep_seed.py)."""
import json, glob, os
rows = []
n = own = anyc = conf = 0
for f in sorted(glob.glob('/verif/seeded/*/meta.json')):
    m = json.load(open(f))
    name = os.path.basename(os.path.dirname(f))
    target = m['property']
    r = m.get('reverified') or {}
    caught = r.get('caught_by') if r.get('patch_applies') else m.get('caught_by', [])
    caught = caught or []
    confirmed = bool(m.get('confirmed'))
    n += 1
    conf += confirmed
    if confirmed:
        own += target in caught
        anyc += bool(caught)
    what = (m.get('summary') or '').replace('|', '/').replace('\n', ' ')
    if len(what) > 150:
        what = what[:147] + '...'
    note = ''
    if not confirmed:
        note = ' (not a confirmed break: see meta.json)'
    rows.append('| %s | %s%s | %s | %s |' % (name, what, note, ', '.join(caught) or '**none**',
                                          'yes' if target in caught else ('-' if not confirmed else '**no**')))
print('| change | what it does | quick checks reporting a violation | own property\'s check |')
print('|---|---|---|---|')
print('\n'.join(rows))
print()
print('%d kept, %d confirmed; of the confirmed ones %d are reported by the check of their own property, %d by at least one check.'
      % (n, conf, own, anyc))
