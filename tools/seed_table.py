#!/usr/bin/env python3
"""Prints a markdown table of /verif/seeded/*/meta.json (for DESIGN.md section 10.5)."""
import json, glob, os
rows = []
for f in sorted(glob.glob('/verif/seeded/*/meta.json')):
    m = json.load(open(f))
    name = os.path.basename(os.path.dirname(f))
    target = m['property']
    caught = m.get('caught_by', [])
    rows.append('| %s | %s | %s | %s | %s |' % (name, (m.get('summary') or '').replace('|', '/')[:170],
                                             'yes' if m.get('confirmed') else 'NO', ', '.join(caught) or '**none**',
                                             'yes' if target in caught else '**no**'))
print('| seeded change | what it does | confirmed (tests pass, demo fails/passes) | quick checks that report a violation | caught by its own property\'s check |')
print('|---|---|---|---|---|')
print('\n'.join(rows))
