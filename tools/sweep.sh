#!/bin/bash
# usage: tools/sweep.sh <tier> <seeds...> ; runs every registered check for each seed, prints summary lines
tier=$1; shift
cd "$(dirname "$0")/.."
ids=$(python3 -c "import json; print(' '.join(c['property_id'] for c in json.load(open('MANIFEST.json'))['checks']))")
for seed in "$@"; do
  for id in $ids; do
    out=$(VERIF_SEED=$seed /venv/bin/python -m rv check $id --tier $tier 2>&1); rc=$?
    echo "seed=$seed $id rc=$rc $(echo "$out" | grep -c '^VIOLATION') violations; $(echo "$out" | grep "^$id tier" | cut -c1-160)"
    if [ $rc -ne 0 ]; then echo "$out" | grep "VIOLATION\|INCONCLUSIVE\|clause=" | cut -c1-400; fi
  done
done
