#!/bin/bash
# usage: tools/sweep_ids.sh <tier> <seed> <ids...> ; like sweep.sh for a subset of the checks
tier=$1; seed=$2; shift 2
cd "$(dirname "$0")/.."
for id in "$@"; do
  out=$(VERIF_SEED=$seed /venv/bin/python -m rv check $id --tier $tier 2>&1); rc=$?
  echo "seed=$seed $id rc=$rc $(echo "$out" | grep -c '^VIOLATION') violations; $(echo "$out" | grep "^$id tier" | cut -c1-160)"
  if [ $rc -ne 0 ]; then echo "$out" | grep "VIOLATION\|INCONCLUSIVE\|clause=" | cut -c1-600; fi
done
