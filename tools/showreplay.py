#!/usr/bin/env python3
import json, sys, glob
pat = sys.argv[1]
for f in sorted(glob.glob('/verif/replays/%s*.json' % pat)):
    r = json.load(open(f))
    print('=====', f, r['gen'], r['idx'], r['witness']['clause'], 'occ', r['occurrences'])
    d = r['witness']['detail']
    print({k: v for k, v in d.items() if k not in ('trace', 'config')})
    if 'config' in d: print(json.dumps(d['config']))
    if r.get('case') and 'interactions' in r['case']: print(json.dumps(r['case']['interactions']))
    print('\n'.join(d.get('trace', [])))
