#!/usr/bin/env python3
"""Re-runs the kept seeded changes against the CURRENT checks and the CURRENT /repo HEAD: for every /verif/seeded/<id>/
the patch is applied to a scratch worktree, the demonstration is run on it, and the quick tier of the seed's own
property's check plus every check that reported it before is run with RV_REPO; the outcome is written to the
`reverified` field of meta.json.   usage: reverify_seeds.py [--jobs N] [--all-checks] [ids...]"""
import json, os, subprocess, sys, tempfile, concurrent.futures as cf
args = sys.argv[1:]
jobs = 3
allc = False
ids = []
while args:
    a = args.pop(0)
    if a == '--jobs': jobs = int(args.pop(0))
    elif a == '--all-checks': allc = True
    else: ids.append(a)
root = '/verif/seeded'
ids = ids or sorted(os.listdir(root))
head = subprocess.check_output(['git', '-C', '/repo', 'rev-parse', '--short', 'HEAD']).decode().strip()
vhead = subprocess.check_output(['git', '-C', '/verif', 'rev-parse', '--short', 'HEAD']).decode().strip()
all_ids = [c['property_id'] for c in json.load(open('/verif/MANIFEST.json'))['checks']]


def one(sid):
    d = os.path.join(root, sid)
    meta = json.load(open(d + '/meta.json'))
    wt = tempfile.mkdtemp(prefix='rs-', dir='/tmp'); os.rmdir(wt)
    subprocess.check_call(['git', '-C', '/repo', 'worktree', 'add', '-q', '--detach', wt, 'HEAD'])
    rec = {'repo_commit': head, 'verif_commit': vhead}
    try:
        if subprocess.run(['git', '-C', wt, 'apply', d + '/patch.diff'], capture_output=True).returncode:
            rec['patch_applies'] = False
            return sid, rec
        rec['patch_applies'] = True
        r = subprocess.run(['timeout', '180', '/venv/bin/python', d + '/demo.py'], env=dict(os.environ, PYTHONPATH=wt),
                           capture_output=True, text=True, cwd=wt)
        rec['demo_exit_changed'] = r.returncode
        r = subprocess.run(['timeout', '180', '/venv/bin/python', d + '/demo.py'], env=dict(os.environ, PYTHONPATH='/repo'),
                           capture_output=True, text=True, cwd='/repo')
        rec['demo_exit_unchanged'] = r.returncode
        todo = all_ids if allc else sorted(set([meta['property']] + list(meta.get('caught_by', [])) +
                                          list((meta.get('reverified') or {}).get('caught_by', []))))
        env = dict(os.environ, RV_REPO=wt, RV_OUT=wt + '/_rv_out')
        res = {}
        for i in todo:
            o = subprocess.run(['/venv/bin/python', '-m', 'rv', 'check', i, '--tier', 'quick'], env=env, cwd='/verif',
                               capture_output=True, text=True)
            cl = sorted({l.strip().split(' mechanism=')[0].replace('clause=', '') for l in o.stdout.splitlines()
                         if l.startswith('  clause=')})
            res[i] = {'exit': o.returncode, 'clauses': cl[:5]}
        rec['checks_quick'] = res
        rec['caught_by'] = [i for i in todo if res[i]['exit'] == 1]
        rec['caught_by_own'] = meta['property'] in rec['caught_by']
        return sid, rec
    finally:
        subprocess.call(['git', '-C', '/repo', 'worktree', 'remove', '--force', wt])


with cf.ThreadPoolExecutor(jobs) as ex:
    for sid, rec in ex.map(one, ids):
        p = os.path.join(root, sid, 'meta.json')
        meta = json.load(open(p))
        meta['reverified'] = rec
        json.dump(meta, open(p, 'w'), indent=1)
        print(sid, 'applies=%s demo=%s/%s caught_by=%s' % (rec.get('patch_applies'), rec.get('demo_exit_changed'),
                                                            rec.get('demo_exit_unchanged'), rec.get('caught_by')), flush=True)
