#!/usr/bin/env python3
"""Rewrites section 10.5 of DESIGN.md from tools/section_10_5_head.md and the table printed by tools/seed_table.py."""
import subprocess
p = '/verif/DESIGN.md'
s = open(p).read()
head = open('/verif/tools/section_10_5_head.md').read()
table = subprocess.check_output(['python3', '/verif/tools/seed_table.py']).decode()
i = s.find('### 10.5 Seeded changes by independent sub-agents')
if i != -1:
    s = s[:i].rstrip('\n') + '\n'
open(p, 'w').write(s.rstrip('\n') + '\n\n' + head.rstrip('\n') + '\n\n' + table)
