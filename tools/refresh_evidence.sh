#!/bin/bash
# Re-runs every registered check (quick tier, seed 0) in /verif against /repo and leaves fresh evidence files.
cd "$(dirname "$0")/.."
ids=$(python3 -c "import json; print(' '.join(c['property_id'] for c in json.load(open('MANIFEST.json'))['checks']))")
rc_all=0
for id in $ids; do
  out=$(VERIF_SEED=0 /venv/bin/python -m rv check $id --tier quick 2>&1); rc=$?
  echo "$id rc=$rc $(echo "$out" | grep "^$id tier" | cut -c1-150)"
  [ $rc -ne 0 ] && rc_all=1 && echo "$out" | grep "VIOLATION\|INCONCLUSIVE" | cut -c1-300
done
exit $rc_all
