#!/usr/bin/env python3
"""Applies each deliberate break of selftest/mutations.py to a scratch worktree of /repo and runs the quick check(s)
expected to catch it (RV_REPO); writes selftest/RESULTS.md.  usage: run.py [name-substring ...] [--all-checks]"""
import json, os, subprocess, sys, tempfile, time
sys.path.insert(0, os.path.dirname(os.path.abspath(__file__)))
from mutations import M
from concurrent.futures import ThreadPoolExecutor

sel = [a for a in sys.argv[1:] if not a.startswith('--')]
muts = [m for m in M if not sel or any(s in m['name'] for s in sel)]


def one(m):
    wt = tempfile.mkdtemp(prefix='st-', dir='/tmp'); os.rmdir(wt)
    subprocess.check_call(['git', '-C', '/repo', 'worktree', 'add', '-q', '--detach', wt, 'HEAD'])
    try:
        p = os.path.join(wt, m['file'])
        s = open(p).read()
        if m['old'] not in s:
            return m, 'OLD TEXT NOT FOUND', {}
        open(p, 'w').write(s.replace(m['old'], m['new'], 1))
        r = subprocess.run(['/venv/bin/python', '-c', 'import rsocket.rsocket_client, rsocket.rsocket_server, rsocket.routing.routing_request_handler'],
                           env=dict(os.environ, PYTHONPATH=wt), capture_output=True, text=True)
        if r.returncode:
            return m, 'DOES NOT IMPORT: ' + r.stderr[-200:], {}
        res = {}
        for pid in m['props']:
            t0 = time.time()
            out = subprocess.run(['/venv/bin/python', '-m', 'rv', 'check', pid, '--tier', 'quick', '--jobs', '4'],
                                 env=dict(os.environ, RV_REPO=wt, RV_OUT=wt + '/_rv_out'), cwd='/verif',
                                 capture_output=True, text=True)
            cl = [l.strip().split(' mechanism=')[0].replace('clause=', '') for l in out.stdout.splitlines() if l.startswith('  clause=')]
            res[pid] = (out.returncode, sorted(set(cl))[:4], round(time.time() - t0, 1))
        return m, 'ok', res
    finally:
        subprocess.call(['git', '-C', '/repo', 'worktree', 'remove', '--force', wt])


rows = []
with ThreadPoolExecutor(int(os.environ.get("ST_JOBS", "4"))) as ex:
    for m, status, res in ex.map(one, muts):
        caught = [p for p, (rc, _, _) in res.items() if rc == 1]
        line = '| %s | %s | %s | %s |' % (m['name'], ', '.join(m['props']), status if status != 'ok' else
                                       ('CAUGHT by ' + ', '.join(caught) if caught else
                                        ('not caught - EQUIVALENT: ' + m['equivalent'] if m.get('equivalent') else '**MISSED**')),
                                       '; '.join('%s: rc=%s %s (%ss)' % (p, rc, ','.join(c), t) for p, (rc, c, t) in res.items()))
        print(line, flush=True)
        rows.append((m, status, res, line))
if not sel:
    with open(os.path.join(os.path.dirname(os.path.abspath(__file__)), 'RESULTS.md'), 'w') as fh:
        fh.write('# Self-validation of the monitors: deliberate breaks (selftest/mutations.py)\n\n'
                 'Each break is applied to a scratch worktree of /repo (never to /repo itself) and the quick tier of the '
                 'check(s) expected to catch it is run with RV_REPO pointing at the copy.\n\n'
                 '| break | expected | result | detail |\n|---|---|---|---|\n')
        for m, status, res, line in rows:
            fh.write(line + '\n')
        n = sum(1 for m, s, r, l in rows if any(rc == 1 for rc, _, _ in r.values()))
        eq = sum(1 for m, s, r, l in rows if m.get('equivalent') and not any(rc == 1 for rc, _, _ in r.values()))
        fh.write('\n%d of %d breaks caught by at least one expected check (quick tier); %d not caught because they are '
                 'equivalent for every reachable input or rested on a wrong expectation (reason in the table); %d missed.\n'
                 % (n, len(rows), eq, len(rows) - n - eq))
