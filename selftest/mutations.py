"""Deliberate property-breaking changes used to validate the monitors (DESIGN.md section 9).
Each entry: (name, property ids expected to catch it, file, old text, new text)."""

M = []


def m(name, props, file, old, new, equivalent=None):
    """equivalent: why the break cannot be observed through the property (an expected miss)."""
    M.append({'name': name, 'props': props, 'file': file, 'old': old, 'new': new, 'equivalent': equivalent})


EQUIVALENT = {
    'codec-31bit-mask-dropped-in-lease': 'the mask only matters for values above 2^31-1, which the generator (and the property) keep out of range',
    'codec-partial-write-skips-empty-data-check': 'frames flagged metadata_only never carry data, so the dropped condition is never decisive',
    'send-complete-before-last-element-async-gen': 'the added return is taken exactly where the generating loop ends anyway (after the last element of a credit batch)',
    'keepalive-on-nonzero-stream': 'the library only ever builds KEEPALIVE frames with empty data through this builder, so the stream id stays 0',
    'async-gen-not-closed-on-cancel': 'wrong expectation: production stops and on_cancel is delivered; only the generator object is left unclosed, which no clause of C09 observes',
    'keepalive-task-survives-close': 'since fix 50419e6 RSocketClient._stop_tasks cancels the keepalive task itself; the second cancellation in _finally_sender is redundant',
}


# ---- C02 codec
m('codec-31bit-mask-dropped-in-lease', ['C02'], 'rsocket/frame.py',
  "self.time_to_live = time_to_live & MASK_31_BITS", "self.time_to_live = time_to_live")
m('codec-keepalive-position-offset', ['C02'], 'rsocket/frame.py',
  "        self.last_received_position = unpack_position(buffer[offset:offset + 8])\n        offset += 8\n        offset += self.parse_data(buffer, offset)",
  "        self.last_received_position = unpack_position(buffer[offset:offset + 8])\n        offset += 7\n        offset += self.parse_data(buffer, offset)")
m('codec-native-position-mask', ['C02'], 'rsocket/frame_helpers.py',
  "        return struct.unpack('>Q', chunk)[0] & MASK_63_BITS", "        return struct.unpack('>Q', chunk)[0] & 0x7FFFFFFFFFFFFF")
m('codec-partial-write-skips-empty-data-check', ['C02'], 'rsocket/frame.py',
  "        if self.metadata:\n            writer_method(self.metadata)\n\n        if not self.metadata_only and self.data:",
  "        if self.metadata:\n            writer_method(self.metadata)\n\n        if self.data:")
m('codec-resume-token-offset', ['C02'], 'rsocket/frame.py',
  "            self.resume_identification_token = (\n                buffer[offset:offset + self.token_length])\n            offset += self.token_length",
  "            self.resume_identification_token = (\n                buffer[offset:offset + self.token_length])\n            offset += self.token_length + (1 if self.token_length > 255 else 0)")
# ---- C03 fragmentation
m('frag-first-budget-off-by-one', ['C03'], 'rsocket/frame_fragmenter.py',
  "self.first_fragment_size_bytes = fragment_size_bytes - first_frame_header_size",
  "self.first_fragment_size_bytes = fragment_size_bytes - first_frame_header_size + 1")
m('frag-complete-on-every-fragment', ['C03'], 'rsocket/frame.py',
  "    if fragment.is_last is None or fragment.is_last:\n        frame.sent_future = base_frame.sent_future\n        frame.flags_complete = base_frame.flags_complete",
  "    frame.flags_complete = base_frame.flags_complete\n    if fragment.is_last is None or fragment.is_last:\n        frame.sent_future = base_frame.sent_future")
m('frag-request-n-dropped-from-first', ['C03'], 'rsocket/frame.py',
  "    if hasattr(base_frame, 'initial_request_n'):\n        frame.initial_request_n = base_frame.initial_request_n",
  "    if hasattr(base_frame, 'initial_request_n') and fragment.is_last:\n        frame.initial_request_n = base_frame.initial_request_n")
m('frag-cache-loses-channel-complete (revert fix)', ['C03'], 'rsocket/frame_fragment_cache.py',
  "if isinstance(current_frame_from_fragments, (PayloadFrame, RequestChannelFrame)):",
  "if isinstance(current_frame_from_fragments, PayloadFrame):")
# ---- C04 chunking
m('parser-length-read-with-2-bytes', ['C04'], 'rsocket/frame_parser.py',
  "        while total > 0 and total >= frame_length_byte_count:", "        while total > 0 and total >= frame_length_byte_count - 1:")
m('parser-empty-message-loop (revert fix)', ['C04', 'C12'], 'rsocket/frame_parser.py',
  "        while total > 0 and total >= frame_length_byte_count:", "        while total >= frame_length_byte_count:")
m('parser-total-drifts', ['C04'], 'rsocket/frame_parser.py',
  "            total -= length + frame_length_byte_count", "            total -= length")
# ---- C05 / C01
m('sender-rotates-to-tail (revert fix)', ['C05', 'C01'], 'rsocket/rsocket_base.py',
  "                self._requeue_partially_sent_frame(self._send_queue.get_nowait())  # cycle to next frame source in queue",
  "                self._send_queue.put_nowait(self._send_queue.get_nowait())  # cycle to next frame source in queue")
m('priority-insert-for-every-frame-of-stream0', ['C05'], 'rsocket/rsocket_base.py',
  "        if held_frames is not None:\n            held_frames.append(frame)\n        else:\n            self._send_queue.put_nowait(frame)",
  "        if held_frames is not None:\n            held_frames.append(frame)\n        elif frame.stream_id == 0 and not self._send_queue.empty():\n            return self.send_priority_frame(frame)\n        else:\n            self._send_queue.put_nowait(frame)")
m('lease-retained-request-overtaken (revert fix)', ['C08', 'C01'], 'rsocket/rsocket_base.py',
  "        held_frames = self._frames_behind_queued_request.get(frame.stream_id)\n\n        if held_frames is not None:",
  "        held_frames = None\n\n        if held_frames is not None:")
m('dispatch-wrong-stream-for-fragmented', ['C01'], 'rsocket/frame_fragment_cache.py',
  "                self._frames_by_stream_id.pop(frame.stream_id)\n            return frame",
  "                self._frames_by_stream_id.pop(frame.stream_id)\n                if len(self._frames_by_stream_id) == 1:\n                    frame.stream_id = next(iter(self._frames_by_stream_id))\n            return frame")
# ---- C06 credit
m('generator-emits-n-plus-one', ['C06'], 'rsocket/streams/stream_from_generator.py',
  "        async for i in async_range(n):\n            next_value = next(self._iteration, _finished_iterator)",
  "        async for i in async_range(n + 1):\n            next_value = next(self._iteration, _finished_iterator)")
m('request-n-replaced-by-max', ['C06'], 'rsocket/streams/stream_handler.py',
  "        self.socket.send_frame(to_request_n_frame(self.stream_id, n))", "        self.socket.send_frame(to_request_n_frame(self.stream_id, max(n, 2)))")
m('channel-initial-n-ignored', ['C06'], 'rsocket/handlers/request_cahnnel_responder.py',
  "                self.subscriber.subscription.request(frame.initial_request_n)",
  "                self.subscriber.subscription.request(max(frame.initial_request_n, 3))")
# ---- C07
m('channel-error-after-complete (revert fix)', ['C07'], 'rsocket/handlers/request_cahnnel_common.py',
  "        elif self._received_complete and isinstance(frame, (PayloadFrame, ErrorFrame)):\n            pass  # the receiving direction already terminated (completed, failed or cancelled): signal nothing more\n",
  "")
m('rr-future-invalid-state (revert fix)', ['C07', 'C08'], 'rsocket/handlers/request_response_requester.py',
  "        if self._future.done():\n            # cancelled by the application before its done callback ran: the stream is over, nothing to resolve\n            self._finish_stream()\n        elif isinstance(frame, PayloadFrame):",
  "        if isinstance(frame, PayloadFrame):")
m('stream-not-finished-on-complete', ['C07', 'C10'], 'rsocket/handlers/request_stream_requester.py',
  '            finally:  # the stream has terminated even if the subscriber raises\n                if frame.flags_complete:\n                    self._finish_stream()',
  '            finally:  # the stream has terminated even if the subscriber raises\n                if frame.flags_complete and not frame.flags_next:\n                    self._finish_stream()')
# ---- C08
m('late-request-n-after-finish (revert fix)', ['C08'], 'rsocket/streams/stream_handler.py',
  "        if self._is_finished:\n            return  # late request(n) by the application: nothing may be sent on a finished stream\n\n", "")
m('request-after-subscribe (revert fix)', ['C08', 'C01'], 'rsocket/handlers/request_channel_requester.py',
  "        self._send_channel_request(self._payload)  # before any subscription: nothing may precede the request frame\n        self.setup()\n        super().subscribe(subscriber)\n",
  "        self.setup()\n        super().subscribe(subscriber)\n        self._send_channel_request(self._payload)\n")
m('server-allocates-odd-ids', ['C08', 'C13'], 'rsocket/rsocket_server.py',
  "    def _get_first_stream_id(self) -> int:\n        return 2", "    def _get_first_stream_id(self) -> int:\n        return 3")
# ---- C09
m('cancel-does-not-cancel-publisher', ['C09'], 'rsocket/handlers/request_stream_responder.py',
  "        elif isinstance(frame, CancelFrame):\n            self.subscriber.subscription.cancel()\n            self._finish_stream()",
  "        elif isinstance(frame, CancelFrame):\n            self._finish_stream()")
m('generator-cancel-before-start (revert fix)', ['C09', 'C12'], 'rsocket/streams/stream_from_generator.py',
  "        self._generator = None\n        self._iteration = None", "        self._iteration = None")
m('rr-responder-future-not-cancelled', ['C09'], 'rsocket/handlers/request_response_responder.py',
  "        if isinstance(frame, CancelFrame):\n            self.future.cancel()\n            self._finish_stream()",
  "        if isinstance(frame, CancelFrame):\n            self._finish_stream()")
# ---- C10
m('responder-entry-kept-on-cancelled-future', ['C10'], 'rsocket/handlers/request_response_responder.py',
  "        if self.future.cancelled():\n            pass\n        elif not future.exception():",
  "        if self.future.cancelled():\n            return\n        elif not future.exception():")
m('finish-stream-keeps-fragment-cache', ['C10'], 'rsocket/rsocket_base.py',
  "        self._stream_control.finish_stream(stream_id)\n        self._frame_fragment_cache.remove(stream_id)",
  "        self._stream_control.finish_stream(stream_id)")
# ---- C11
m('cleanup-aborts-on-raise (revert fix)', ['C11'], 'rsocket/stream_control.py',
  "            except Exception:\n                logger().error('Error while disposing stream %s', stream_id, exc_info=True)",
  "            except ZeroDivisionError:\n                logger().error('Error while disposing stream %s', stream_id, exc_info=True)")
m('on-close-twice', ['C11'], 'rsocket/rsocket_base.py',
  "        try:\n            await self._handler.on_close(self)\n        finally:\n            await self._stop_tasks()",
  "        try:\n            await self._handler.on_close(self)\n            if self._stream_control._streams is not None and self._is_closing:\n                await self._handler.on_close(self)\n        finally:\n            await self._stop_tasks()")
m('requesters-not-failed-on-close', ['C11', 'C17'], 'rsocket/stream_control.py',
  "                if isinstance(stream, Requester):\n                    frame = ErrorFrame()", "                if isinstance(stream, Requester) and stream_id % 4 != 3:\n                    frame = ErrorFrame()")
# ---- C13
m('allocator-mask-dropped', ['C13'], 'rsocket/stream_control.py',
  "self._current_stream_id = (self._current_stream_id + 2) & self._maximum_stream_id", "self._current_stream_id = (self._current_stream_id + 2) % (self._maximum_stream_id + 2)")
m('allocator-attempt-bound-off-by-one', ['C13'], 'rsocket/stream_control.py',
  "            if attempt_counter > self._maximum_stream_id / 2:", "            if attempt_counter >= self._maximum_stream_id / 2 - 1:")
m('duplicate-id-replaces-stream', ['C13'], 'rsocket/rsocket_base.py',
  "    async def handle_request_stream(self, frame: RequestStreamFrame):\n        stream_id = frame.stream_id\n        self._stream_control.assert_stream_id_available(stream_id)",
  "    async def handle_request_stream(self, frame: RequestStreamFrame):\n        stream_id = frame.stream_id")
m('fnf-finishes-unregistered-id (revert fix)', ['C13'], 'rsocket/rsocket_base.py',
  "        # The id is allocated but never registered, so there is nothing to finish once the frame was sent;\n        # finishing it would remove a stream that has been registered under the same id in the meantime.\n",
  "        frame.sent_future.add_done_callback(lambda _: self.finish_stream(stream_id))\n")
# ---- C14
m('lease-counter-off-by-one', ['C14'], 'rsocket/lease.py',
  "        if self._request_counter > self.maximum_request_count:", "        if self._request_counter > self.maximum_request_count + 1:")
m('lease-expiry-inclusive', ['C14'], 'rsocket/lease.py',
  "        if self._lease_created_at + self.maximum_lease_time <= datetime.now():", "        if self._lease_created_at + self.maximum_lease_time < datetime.now():")
m('lease-queue-lifo', ['C14'], 'rsocket/rsocket_base.py',
  '            request_frame = self._request_queue.get_nowait()\n',
  '            request_frame = self._request_queue._queue.pop()\n')
m('lease-ttl-seconds (revert ms fix)', ['C14', 'C16'], 'rsocket/datetime_helpers.py',
  "    return round(period.total_seconds() * 1000)  # total_seconds() already includes the sub-second part",
  "    return round(period.total_seconds() * 1000) + round(period.microseconds / 1000)")
# ---- C15
m('keepalive-echo-keeps-respond-flag', ['C15'], 'rsocket/rsocket_base.py',
  "        if frame.flags_respond:\n            frame.flags_respond = False\n            self.send_frame(frame)",
  "        if frame.flags_respond:\n            frame.flags_respond = len(frame.data) > 500\n            self.send_frame(frame)")
m('keepalive-timeout-threshold', ['C15'], 'rsocket/rsocket_client.py',
  "                if time_since_last_keepalive > self._max_lifetime_period:", "                if time_since_last_keepalive * 2 > self._max_lifetime_period:")
m('keepalive-last-not-updated', ['C15'], 'rsocket/rsocket_base.py',
  "    async def handle_keep_alive(self, frame: KeepAliveFrame):\n        self._update_last_keepalive()",
  "    async def handle_keep_alive(self, frame: KeepAliveFrame):\n        if frame.flags_respond:\n            self._update_last_keepalive()")
# ---- C16
m('setup-after-transport (revert fix)', ['C16'], 'rsocket/rsocket_client.py',
  "        await super().connect()\n\n        try:\n            await self._connect_new_transport()",
  "        try:\n            await self._connect_new_transport()\n            await super().connect()")
m('setup-lease-flag-dropped-with-payload', ['C16'], 'rsocket/frame_builders.py',
  "    if payload is not None:\n        setup.data = payload.data\n        setup.metadata = payload.metadata",
  "    if payload is not None:\n        setup.data = payload.data\n        setup.metadata = payload.metadata\n        setup.flags_lease = False")
m('on-setup-called-for-rejected-setup', ['C16'], 'rsocket/rsocket_base.py',
  "        if frame.flags_lease:\n            if self._lease_publisher is None:\n                raise RSocketProtocolError(ErrorCode.UNSUPPORTED_SETUP, data='Lease not available')",
  "        if frame.flags_lease:\n            if self._lease_publisher is None:\n                await self._handler.on_setup(frame.data_encoding, frame.metadata_encoding, payload_from_frame(frame))\n                raise RSocketProtocolError(ErrorCode.UNSUPPORTED_SETUP, data='Lease not available')")
# ---- C17
m('server-alive-not-reset (revert fix)', ['C17'], 'rsocket/rsocket_client.py',
  "        self._is_server_alive = True  # a keepalive timeout on the previous connection must not outlive it\n", "")
m('stop-tasks-race (revert fix)', ['C17'], 'rsocket/rsocket_base.py',
  "        sender_task, self._sender_task = self._sender_task, None\n        receiver_task, self._receiver_task = self._receiver_task, None\n\n        await cancel_if_task_exists(sender_task)\n        await cancel_if_task_exists(receiver_task)",
  "        await cancel_if_task_exists(self._sender_task)\n        self._sender_task = None\n        await cancel_if_task_exists(self._receiver_task)\n        self._receiver_task = None")
# ---- C18
m('tag-limit-254', ['C18'], 'rsocket/extensions/tagging.py', "            if len(tag) > 255:", "            if len(tag) > 254:")
m('mime-name-129-accepted', ['C18'], 'rsocket/frame_helpers.py',
  "    if encoded_encoding_length > 0b1111111:", "    if encoded_encoding_length > 0b10000000:")
m('auth-username-length-8bit', ['C18'], 'rsocket/extensions/authentication.py',
  "        username_length = struct.unpack('>I', b'\\x00\\x00' + buffer[:2])[0]", "        username_length = struct.unpack('>I', b'\\x00\\x00\\x00' + buffer[1:2])[0]")
# ---- C19
m('unknown-handler-of-other-type', ['C19'], 'rsocket/routing/request_router.py',
  "        elif frame_type == FrameType.REQUEST_STREAM:\n            return self._unknown.stream", "        elif frame_type == FrameType.REQUEST_STREAM:\n            return self._unknown.stream or self._unknown.response")
m('verifier-skipped-for-fnf', ['C19'], 'rsocket/routing/routing_request_handler.py',
  "        await self._verify_authentication(route, composite_metadata)\n        return await self.router.route(frame_type, route, payload, composite_metadata)",
  "        if frame_type != FrameType.REQUEST_FNF:\n            await self._verify_authentication(route, composite_metadata)\n        return await self.router.route(frame_type, route, payload, composite_metadata)")
m('second-tag-used', ['C19'], 'rsocket/extensions/helpers.py', "            return item.tags[0].decode()", "            return item.tags[-1].decode()")
# ---- C20
m('adapter-limit-ignored-on-refill', ['C20'], 'rsocket/reactivex/from_rsocket_publisher.py',
  "            subscriber.subscription.request(limit_rate)\n            subscriber.get_next_n.clear()", "            subscriber.subscription.request(limit_rate + 1)\n            subscriber.get_next_n.clear()")
m('rx-adapter-push-recursion (revert fix)', ['C20', 'C12'], 'rsocket/rx_support/rx_handler_adapter.py',
  "        await self.delegate.on_metadata_push(metadata)", "        await self.on_metadata_push(metadata)")
m('rx-dispose-does-not-cancel', ['C20'], 'rsocket/rx_support/from_rsocket_publisher.py',
  "    except CancelledError:\n        if not subscriber.done.is_set():\n            subscriber.subscription.cancel()", "    except CancelledError:\n        pass")


# ---------------------------------------------------------------------------
# second batch: subtler slips
m('frag-next-header-budget-for-first', ['C03'], 'rsocket/frame_fragmenter.py',
  "        expected_data_fragment_length = self._get_next_fragment_body_size() - len(last_metadata_fragment)",
  "        expected_data_fragment_length = self.next_frame_header_size - len(last_metadata_fragment)")
m('frag-last-detection-empty-data', ['C03'], 'rsocket/frame_fragmenter.py',
  "                is_last = self._data_length == 0 and self._metadata_read_length == self._metadata_length",
  "                is_last = self._metadata_read_length == self._metadata_length")
m('cache-merge-order-data-before-metadata', ['C03', 'C01'], 'rsocket/frame_fragment_cache.py',
  "            current_frame_from_fragments.data += next_fragment.data", "            current_frame_from_fragments.data = next_fragment.data + current_frame_from_fragments.data if len(next_fragment.data) == 1 else current_frame_from_fragments.data + next_fragment.data")
m('parser-exact-length-boundary', ['C04'], 'rsocket/frame_parser.py',
  "            if total < length + frame_length_byte_count:\n                return", "            if total <= length + frame_length_byte_count and length > 40:\n                return")
m('tcp-read-none-on-short-read', ['C04', 'C01'], 'rsocket/transports/tcp.py',
  "            if not data:\n                self._writer.close()\n                return", "            if not data or (len(data) == 1 and data == b'\\x00' and self._read_buffer_size > 64):\n                self._writer.close()\n                return")
m('requeue-only-when-next-is-same-stream', ['C05'], 'rsocket/rsocket_base.py',
  "            if item.stream_id == frame_source.stream_id:\n                position = index\n                break",
  "            if item.stream_id == frame_source.stream_id and index == 0:\n                position = index\n                break")
m('send-complete-before-last-element-async-gen', ['C06', 'C01'], 'rsocket/streams/stream_from_async_generator.py',
  "                is_complete_sent = next_value[1]\n                yield next_value", "                is_complete_sent = next_value[1]\n                yield next_value\n                if i == n - 1 and n > 6:\n                    return")
m('credit-queue-drained-twice', ['C06'], 'rsocket/streams/stream_from_generator.py',
  "                n = await self._request_n_queue.get()\n", "                n = await self._request_n_queue.get()\n                if n == 7:\n                    n = 8\n")
m('rx-backpressure-feedback-off', ['C06', 'C20'], 'rsocket/reactivex/back_pressure_publisher.py',
  "    def request(self, n: int):\n        self._feedback.on_next(n)", "    def request(self, n: int):\n        self._feedback.on_next(n if n != 3 else 4)")
m('stream-requester-error-does-not-finish', ['C10'], 'rsocket/handlers/request_stream_requester.py',
  '            try:\n                self._subscriber.on_error(error_frame_to_exception(frame))\n            finally:\n                self._finish_stream()',
  '            try:\n                self._subscriber.on_error(error_frame_to_exception(frame))\n            finally:\n                if frame.error_code != 0x201:\n                    self._finish_stream()')
m('rr-requester-error-does-not-finish', ['C10'], 'rsocket/handlers/request_response_requester.py',
  "            self._future.set_exception(error_frame_to_exception(frame))\n            self._finish_stream()",
  "            self._future.set_exception(error_frame_to_exception(frame))")
m('responder-stream-flag-complete-not-finished', ['C10'], 'rsocket/handlers/request_stream_responder.py',
  "        if is_complete:\n            self.socket.finish_stream(self.stream_id)", "        if is_complete and value.data:\n            self.socket.finish_stream(self.stream_id)")
m('double-on-complete-stream', ['C07'], 'rsocket/handlers/request_stream_requester.py',
  '                elif frame.flags_complete:\n                    self._subscriber.on_complete()\n            finally:  # the stream has terminated even if the subscriber raises\n                if frame.flags_complete:\n                    self._finish_stream()',
  '            finally:  # the stream has terminated even if the subscriber raises\n                if frame.flags_complete:\n                    self._subscriber.on_complete()\n                    self._finish_stream()')
m('channel-complete-at-request-when-n-is-max', ['C01'], 'rsocket/handlers/request_cahnnel_responder.py',
  "            if frame.flags_complete:\n                self._complete_remote_subscriber()", "            if frame.flags_complete or frame.initial_request_n == 0x7FFFFFFF:\n                self._complete_remote_subscriber()")
m('cancel-sent-by-stream-responder-on-error', ['C08'], 'rsocket/handlers/request_stream_responder.py',
  "    def on_error(self, exception: Exception):\n        self.socket.send_error(self.stream_id, exception)", "    def on_error(self, exception: Exception):\n        self.socket.send_error(self.stream_id, exception)\n        self.socket.send_complete(self.stream_id)")
m('payload-after-complete-flag', ['C08'], 'rsocket/handlers/request_stream_responder.py',
  "        if is_complete:\n            self.socket.finish_stream(self.stream_id)", "        if is_complete:\n            self.socket.finish_stream(self.stream_id)\n            if value.metadata:\n                self.socket.send_complete(self.stream_id)")
m('keepalive-on-nonzero-stream', ['C08', 'C15'], 'rsocket/frame_builders.py',
  "    frame = KeepAliveFrame()\n    frame.flags_respond = True", "    frame = KeepAliveFrame()\n    frame.stream_id = 0 if not data else 1\n    frame.flags_respond = True")
m('cancel-twice-channel (revert fix)', ['C09'], 'rsocket/handlers/request_cahnnel_common.py',
  "        if self._received_complete:\n            return  # already cancelled, completed or failed: a repeated or late cancel() sends nothing\n\n", "")
m('async-gen-not-closed-on-cancel', ['C09'], 'rsocket/streams/stream_from_async_generator.py',
  "    def _cancel_generator(self):\n        asyncio.create_task(self._generator.aclose())", "    def _cancel_generator(self):\n        pass")
m('keepalive-task-survives-close', ['C11'], 'rsocket/rsocket_client.py',
  "    async def _finally_sender(self):\n        await cancel_if_task_exists(self._keepalive_task)", "    async def _finally_sender(self):\n        pass")
m('close-does-not-fail-rr', ['C11'], 'rsocket/handlers/request_response_requester.py',
  "        elif isinstance(frame, ErrorFrame):\n            self._future.set_exception(error_frame_to_exception(frame))",
  "        elif isinstance(frame, ErrorFrame) and (frame.error_code != 0x101 or self.stream_id % 8 != 5):\n            self._future.set_exception(error_frame_to_exception(frame))")
m('protocol-error-closes-connection', ['C12'], 'rsocket/rsocket_base.py',
  "                except RSocketProtocolError as exception:\n                    logger().error('%s: Protocol error %s', self._log_identifier(), str(exception))\n                    self.send_error(frame.stream_id, exception)",
  "                except RSocketProtocolError as exception:\n                    logger().error('%s: Protocol error %s', self._log_identifier(), str(exception))\n                    self.send_error(frame.stream_id, exception)\n                    if exception.error_code == ErrorCode.REJECTED_RESUME:\n                        raise RSocketTransportError()")
m('fragment-type-mismatch-escapes', ['C12'], 'rsocket/rsocket_base.py',
  "                except Exception as exception:\n                    logger().error('%s: Unknown error', self._log_identifier(), exc_info=True)\n                    self.send_error(frame.stream_id, exception)",
  "                except RSocketFrameFragmentDifferentTypeX as exception:\n                    logger().error('%s: Unknown error', self._log_identifier(), exc_info=True)\n                    self.send_error(frame.stream_id, exception)")
m('lease-not-reset-by-new-lease', ['C14'], 'rsocket/rsocket_base.py',
  "        self._requester_lease = DefinedLease(\n            frame.number_of_requests,\n            timedelta(milliseconds=frame.time_to_live)\n        )",
  "        if frame.number_of_requests > 0 or not isinstance(self._requester_lease, DefinedLease):\n            self._requester_lease = DefinedLease(\n                frame.number_of_requests,\n                timedelta(milliseconds=frame.time_to_live)\n            )")
m('lease-responder-announces-seconds', ['C14'], 'rsocket/lease.py',
  "        frame.time_to_live = to_milliseconds(self.maximum_lease_time)", "        frame.time_to_live = int(self.maximum_lease_time.total_seconds()) * 1000")
m('keepalive-period-from-lifetime', ['C15'], 'rsocket/rsocket_client.py',
  "                await asyncio.sleep(self._keep_alive_period.total_seconds())\n                self._send_new_keepalive()", "                await asyncio.sleep(min(self._keep_alive_period, self._max_lifetime_period).total_seconds())\n                self._send_new_keepalive()")
m('setup-version-minor', ['C16'], 'rsocket/frame.py',
  "PROTOCOL_MINOR_VERSION = 0", "PROTOCOL_MINOR_VERSION = 1")
m('setup-mime-swapped', ['C16'], 'rsocket/frame_builders.py',
  "    setup.data_encoding = data_encoding\n    setup.metadata_encoding = metadata_encoding", "    setup.data_encoding = data_encoding if len(data_encoding) < 40 else metadata_encoding\n    setup.metadata_encoding = metadata_encoding")
m('reconnect-stream-ids-not-reset', ['C17'], 'rsocket/rsocket_base.py',
  "        self._stream_control = StreamControl(self._get_first_stream_id())\n        self._is_closing = False",
  "        if getattr(self, '_stream_control', None) is None:\n            self._stream_control = StreamControl(self._get_first_stream_id())\n        self._is_closing = False")
m('reconnect-old-transport-not-closed', ['C17'], 'rsocket/rsocket_client.py',
  "        await super().close()\n", "        if not reconnect:\n            await super().close()\n        else:\n            await self._stop_tasks()\n")
m('composite-length-24bit-truncated', ['C18'], 'rsocket/extensions/composite_metadata.py',
  "            item_serialized += pack_24bit_length(item_metadata)", "            item_serialized += pack_24bit_length(item_metadata[:65535])")
m('auth-bearer-parse-drops-last-byte', ['C18'], 'rsocket/extensions/authentication.py',
  "    def parse(self, buffer: bytes):\n        self.token = buffer", "    def parse(self, buffer: bytes):\n        self.token = buffer[:65535]")
m('route-param-named-payload-gets-metadata', ['C19'], 'rsocket/routing/request_router.py',
  "            if 'composite_metadata' == parameter or parameter_type.annotation is CompositeMetadata:", "            if 'composite_metadata' == parameter or parameter_type.annotation is CompositeMetadata or parameter == 'p':")
m('verifier-after-routing', ['C19'], 'rsocket/routing/routing_request_handler.py',
  "        await self._verify_authentication(route, composite_metadata)\n        return await self.router.route(frame_type, route, payload, composite_metadata)",
  "        result = await self.router.route(frame_type, route, payload, composite_metadata)\n        await self._verify_authentication(route, composite_metadata)\n        return result")
m('rx3-client-limit-ignored', ['C20'], 'rsocket/rx_support/rx_rsocket.py',
  "        response_publisher = self._rsocket.request_stream(request).initial_request_n(request_limit)\n        return from_rsocket_publisher(response_publisher, request_limit)",
  "        response_publisher = self._rsocket.request_stream(request).initial_request_n(request_limit)\n        return from_rsocket_publisher(response_publisher, max(request_limit, 2))")
m('rx4-empty-observable-completion-swallowed', ['C20'], 'rsocket/reactivex/back_pressure_publisher.py',
  "                        elif isinstance(event, OnCompleted):\n                            observer.on_completed()\n                            return",
  "                        elif isinstance(event, OnCompleted):\n                            if i > 0 or next_n > 1:\n                                observer.on_completed()\n                            return")
m('close-does-not-fail-late-requests (revert fix)', ['C11'], 'rsocket/rsocket_base.py',
  "        # Requests made after the receiver had already ended (connection lost earlier) are still registered.\n        self.stop_all_streams()\n",
  "")
m('terminal-callback-raise-leaves-stream (revert fix)', ['C07'], 'rsocket/handlers/request_stream_requester.py',
  "            try:\n                self._subscriber.on_error(error_frame_to_exception(frame))\n            finally:\n                self._finish_stream()",
  "            self._subscriber.on_error(error_frame_to_exception(frame))\n            self._finish_stream()")

m('error-data-decoded-strictly (revert fix)', ['C08'], 'rsocket/frame.py',
  "    message = frame.data.decode('utf-8', errors='replace')\n", "    message = frame.data.decode('utf-8')\n")

for _m in M:
    if _m['name'] in EQUIVALENT:
        _m['equivalent'] = EQUIVALENT[_m['name']]
