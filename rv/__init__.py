"""Runtime-monitoring harness for rsocket-py (see /verif/DESIGN.md).

Importing this package puts the repository under test (RV_REPO, default /repo)
first on sys.path and refuses to continue if `rsocket` resolves elsewhere.
"""
import os
import sys

REPO = os.path.realpath(os.environ.get('RV_REPO', '/repo'))
VERIF = os.path.dirname(os.path.dirname(os.path.realpath(__file__)))

if REPO not in sys.path[:1]:
    sys.path.insert(0, REPO)

os.environ.setdefault('RSOCKET_PY_VERIF', '1')


def assert_repo():
    import rsocket
    where = os.path.realpath(rsocket.__file__)
    if not where.startswith(REPO + os.sep):
        raise SystemExit('rv: rsocket imported from %s, expected under %s' % (where, REPO))
