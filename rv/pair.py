"""E-mix engine: two real endpoints (RSocketClient / RSocketServer) joined by a simulated
link, driven by scripted interactions of the five models started by either side."""
import asyncio
from datetime import timedelta

from rsocket.payload import Payload
from rsocket.rsocket_client import RSocketClient
from rsocket.rsocket_server import RSocketServer

from . import apps, links, vloop
from .apps import (World, RecSubscriber, RecPublisher, ScriptedHandler, make_payload, pkey, pbrief, MAX_N,
                   DIR_REQUEST, DIR_RESPONSE, DIR_CHANNEL_UP, _pace, app_exception)

BIG = 1.0e6   # "never" for keepalive purposes (virtual seconds)


class Driver:
    """Behaviour of both applications, looked up per interaction id."""

    def __init__(self, world, horizon=600.0):
        self.world = world
        self.horizon = horizon

    # ---- responder side ---------------------------------------------------

    async def handler_entry(self, handler, iid, model):
        spec = self.world.specs.get(iid)
        if spec is None:
            return
        resp = spec.get('resp') or {}
        fail = resp.get('fail')
        if fail == 'raise-before-await':
            raise app_exception(self.world, 'handler-raises-%s' % iid)
        await _pace(resp.get('handler_delay'))
        self.world.log('handler_return', who=handler.side + '-handler', iid=iid)
        if fail == 'raise-after-await':
            raise app_exception(self.world, 'handler-raises-%s' % iid)

    def make_response(self, handler, iid):
        world = self.world
        spec = world.specs[iid]
        resp = spec['resp']
        st = world.inter[iid]
        loop = asyncio.get_event_loop()
        fut = vloop.RecFuture(loop=loop)
        st['resp_future'] = fut
        who = handler.side + '-responder'

        def resolve():
            if fut.done():
                return
            out = resp.get('outcome', 'ok')
            if out == 'ok':
                dl, ml = resp['size']
                p = make_payload(iid, DIR_RESPONSE, 0, dl, ml, none_for_empty=resp.get('empty_none', False))
                st.setdefault('emitted', {}).setdefault(DIR_RESPONSE, []).append(pkey(p))
                world.log('emit', who=who, iid=iid, dir=DIR_RESPONSE, seq=0, p=pbrief(pkey(p)), complete=True)
                fut.set_result(p)
            elif out == 'error':
                world.log('emit_terminal', who=who, iid=iid, dir=DIR_RESPONSE, ev='error')
                fut.set_exception(app_exception(world, 'app-error-%d' % iid))

        def on_done(f):
            if f.cancelled():
                world.log('resp_future_cancelled', who=who, iid=iid)
                st['resp_future_cancelled'] = st.get('resp_future_cancelled', 0) + 1

        fut.add_done_callback(on_done)
        delay = resp.get('delay') or ('none',)
        if resp.get('outcome') == 'never':
            return fut
        if resp.get('fail') == 'failed-future':
            fut.set_exception(app_exception(world, 'failed-future-%d' % iid))
            return fut
        if delay[0] == 'none':
            resolve()
        else:
            async def later():
                await _pace(delay)
                resolve()
            st['resp_task'] = asyncio.ensure_future(later())
        return fut

    def _publisher(self, who, iid, direction, cfg):
        world = self.world
        st = world.inter[iid]
        source = cfg.get('source', 'rec')
        elems = cfg.get('elems', [])
        terminal = cfg.get('terminal', 'complete')
        if source == 'rec':
            pub = RecPublisher(world, iid, direction, who, elems, terminal, tuple(cfg.get('pacing', ('sync',))),
                               raise_in=cfg.get('raise_in'), empty_none=cfg.get('empty_none', False))
            st.setdefault('publishers', {})[direction] = pub
            return pub
        # library sources: generator / async generator
        rec = {'next_calls': 0, 'emitted': [], 'closed': False, 'finally': False, 'cancel_cb': 0, 'complete_cb': 0,
               'next_after_close': 0}
        st.setdefault('gen_sources', {})[direction] = rec
        pacing = tuple(cfg.get('pacing', ('sync',)))

        def one(seq):
            dl, ml = elems[seq]
            p = make_payload(iid, direction, seq, dl, ml)
            last = seq == len(elems) - 1
            flag = last and terminal == 'flag'
            rec['next_calls'] += 1
            if rec['closed']:
                rec['next_after_close'] += 1
            rec['emitted'].append(pkey(p))
            world.log('emit', who=who, iid=iid, dir=direction, seq=seq, p=pbrief(pkey(p)), complete=flag)
            return p, flag

        def on_cancel():
            rec['cancel_cb'] += 1
            world.log('pub', who=who, iid=iid, dir=direction, ev='cancel')
            if 'cancel' in (cfg.get('raise_in') or ()):
                raise app_exception(world, 'on_cancel of %s raises' % iid)

        def on_complete():
            rec['complete_cb'] += 1

        if source.startswith('rx'):
            if source.startswith('rx4'):
                import reactivex as R
                from rsocket.reactivex import back_pressure_publisher as bp
            else:
                import rx as R
                from rsocket.rx_support import back_pressure_publisher as bp
            rec['feedback'] = []
            if source.endswith('bp'):
                async def values():
                    try:
                        for seq in range(len(elems)):
                            if pacing[0] == 'timed':
                                await asyncio.sleep(pacing[1])
                            elif pacing[0] in ('tick', 'burst'):
                                await asyncio.sleep(0)
                            yield one(seq)[0]
                        if terminal == 'error':
                            world.log('emit_terminal', who=who, iid=iid, dir=direction, ev='error')
                            raise app_exception(world, 'app-error-%d' % iid)
                        world.log('emit_terminal', who=who, iid=iid, dir=direction, ev='complete')
                    finally:
                        rec['finally'] = True

                def factory(backpressure):
                    backpressure.subscribe(on_next=lambda n: rec['feedback'].append(n),
                                           on_completed=lambda: rec['feedback'].append('completed'))
                    return bp.observable_from_async_generator(values().__aiter__(), backpressure)

                src = bp.observable_to_publisher(bp.from_observable_with_backpressure(factory))
            else:
                def it():
                    for seq in range(len(elems)):
                        yield one(seq)[0]
                    world.log('emit_terminal', who=who, iid=iid, dir=direction,
                              ev='error' if terminal == 'error' else 'complete')

                obs = R.from_iterable(it())
                if terminal == 'error':
                    obs = R.concat(obs, R.throw(app_exception(world, 'app-error-%d' % iid)))
                src = bp.observable_to_publisher(obs)
            st.setdefault('lib_sources', {})[direction] = src
            return src

        if source == 'gen':
            from rsocket.streams.stream_from_generator import StreamFromGenerator

            def gen():
                try:
                    for seq in range(len(elems)):
                        yield one(seq)
                    if terminal == 'error':
                        world.log('emit_terminal', who=who, iid=iid, dir=direction, ev='error')
                        raise app_exception(world, 'app-error-%d' % iid)
                    if terminal != 'flag' or not elems:
                        world.log('emit_terminal', who=who, iid=iid, dir=direction, ev='complete')
                except GeneratorExit:
                    rec['closed'] = True
                    world.log('pub', who=who, iid=iid, dir=direction, ev='generator_exit')
                    raise
                finally:
                    rec['finally'] = True

            delay = timedelta(seconds=pacing[1]) if pacing[0] == 'timed' else timedelta(0)
            if cfg.get('factory_raises'):
                gen = _raising_factory(world, who, iid, direction)
            src = StreamFromGenerator(gen, delay_between_messages=delay, on_cancel=on_cancel, on_complete=on_complete)
        else:
            from rsocket.streams.stream_from_async_generator import StreamFromAsyncGenerator

            async def agen():
                try:
                    for seq in range(len(elems)):
                        if pacing[0] == 'timed':
                            await asyncio.sleep(pacing[1])
                        elif pacing[0] in ('tick', 'burst'):
                            await asyncio.sleep(0)
                        yield one(seq)
                    if terminal == 'error':
                        world.log('emit_terminal', who=who, iid=iid, dir=direction, ev='error')
                        raise app_exception(world, 'app-error-%d' % iid)
                    if terminal != 'flag' or not elems:
                        world.log('emit_terminal', who=who, iid=iid, dir=direction, ev='complete')
                except GeneratorExit:
                    rec['closed'] = True
                    world.log('pub', who=who, iid=iid, dir=direction, ev='generator_exit')
                    raise
                finally:
                    rec['finally'] = True

            if cfg.get('factory_raises'):
                agen = _raising_factory(world, who, iid, direction)
            src = StreamFromAsyncGenerator(agen, on_cancel=on_cancel, on_complete=on_complete)
        st.setdefault('lib_sources', {})[direction] = src
        return src

    def make_stream(self, handler, iid):
        spec = self.world.specs[iid]
        return self._publisher(handler.side + '-responder', iid, DIR_RESPONSE, spec['resp'])

    def make_channel(self, handler, iid):
        world = self.world
        spec = world.specs[iid]
        st = world.inter[iid]
        resp = spec['resp']
        pub = None
        if resp.get('publisher', True):
            pub = self._publisher(handler.side + '-responder', iid, DIR_RESPONSE, resp)
        sub = None
        if resp.get('subscriber', True):
            sub = RecSubscriber(world, iid, DIR_CHANNEL_UP, handler.side + '-responder-sub',
                                policy=tuple(resp.get('up_policy', ('refill', MAX_N, 0))),
                                cancel_after=resp.get('up_cancel_after'),
                                request_on_subscribe=resp.get('up_n0', MAX_N),
                                raise_in=resp.get('sub_raise_in'))
            st['up_subscriber'] = sub
        return pub, sub

    # ---- requester side ---------------------------------------------------

    async def run_interaction(self, ep, side, spec):
        world = self.world
        iid = spec['iid']
        st = world.inter[iid]
        model = spec['model']
        await _pace(spec.get('start'))
        dl, ml = spec['req']
        req = make_payload(iid, DIR_REQUEST, 0, dl, ml)
        st['request'] = pkey(req)
        who = side + '-requester'
        world.log('call', who=who, iid=iid, model=model, p=pbrief(pkey(req)))
        try:
            if model == 'rr':
                fut = ep.request_response(req)
                st['future'] = fut
                fut.add_done_callback(lambda f: world.log('future_done', who=who, iid=iid,
                                                          how='cancelled' if f.cancelled() else
                                                          ('exception' if f.exception() else 'result')))
                if spec.get('rr_cancel') is not None:
                    await _pace(spec['rr_cancel'])
                    if not fut.done():
                        world.log('app_cancel', who=who, iid=iid, dir=DIR_RESPONSE)
                        st['cancelled_at'] = len(world.events)
                        fut.cancel()
                        world.log('app_cancel_returned', who=who, iid=iid, dir=DIR_RESPONSE)
                try:
                    res = await asyncio.wait_for(asyncio.shield(fut), self.horizon)
                    st['result'] = ('result', pkey(res))
                except asyncio.TimeoutError:
                    st['result'] = ('pending',)
                except asyncio.CancelledError:
                    if fut.cancelled():
                        st['result'] = ('cancelled',)
                    else:
                        raise
                except Exception as e:
                    st['result'] = ('exception', '%s: %s' % (type(e).__name__, str(e)[:80]))
            elif model == 'fnf':
                fut = ep.fire_and_forget(req)
                # recorded by a done-callback, i.e. at the first opportunity application code gets to act on it
                fut.add_done_callback(lambda f: world.log('sent_future_resolved', who=who, iid=iid))
                try:
                    await asyncio.wait_for(asyncio.shield(fut), self.horizon)
                    st['result'] = ('sent',)
                except asyncio.TimeoutError:
                    st['result'] = ('pending',)
            elif model == 'push':
                md = req.metadata if ml >= apps.HEADER_LEN else req.data
                st['request'] = (b'', bytes(md))
                fut = ep.metadata_push(md)
                try:
                    await asyncio.wait_for(asyncio.shield(fut), self.horizon)
                    st['result'] = ('sent',)
                except asyncio.TimeoutError:
                    st['result'] = ('pending',)
            elif model in ('stream', 'channel') and spec.get('requester') == 'collector':
                # the library's own requester-side application: AwaitableRSocket + CollectorSubscriber
                from rsocket.awaitable.awaitable_rsocket import AwaitableRSocket
                from types import SimpleNamespace
                n0 = spec.get('n0', MAX_N)
                aw = AwaitableRSocket(ep)
                up_pub = None
                if model == 'channel' and spec.get('up') is not None:
                    up_pub = self._publisher(who, iid, DIR_CHANNEL_UP, spec['up'])
                rec = SimpleNamespace(values=[], log=['on_subscribe'], cancelled=False, requests=None, after_cancel=[],
                                      subscription=None, who=who + '-collector')
                st['subscriber'] = rec
                try:
                    if model == 'stream':
                        coro = aw.request_stream(req, limit_rate=n0)
                    else:
                        coro = aw.request_channel(req, publisher=up_pub, limit_rate=n0)
                    values = await asyncio.wait_for(coro, self.horizon)
                    rec.values = [pkey(v) for v in values]
                    rec.log += ['on_next'] * len(values) + ['on_complete']
                    st['result'] = ('done',)
                except asyncio.TimeoutError:
                    st['result'] = ('pending',)
                except Exception as e:
                    rec.log.append('on_error')
                    st['result'] = ('done',)
                    world.log('sub', who=rec.who, iid=iid, dir=DIR_RESPONSE, ev='on_error', err=repr(e)[:80])
            elif model in ('stream', 'channel'):
                n0 = spec.get('n0', MAX_N)
                sub = RecSubscriber(world, iid, DIR_RESPONSE, who + '-sub',
                                    policy=tuple(spec.get('policy', ('refill', MAX_N, 0))),
                                    cancel_after=spec.get('cancel_after'), initial_granted=n0,
                                    raise_in=spec.get('sub_raise_in'), request_on_subscribe=spec.get('ros'))
                st['subscriber'] = sub
                if model == 'stream':
                    pub = ep.request_stream(req)
                else:
                    up = spec.get('up')
                    up_pub = None
                    if up is not None:
                        up_pub = self._publisher(who, iid, DIR_CHANNEL_UP, up)
                    pub = ep.request_channel(req, up_pub)
                st['stream_handle'] = pub
                pub.initial_request_n(n0).subscribe(sub)
                world.log('subscribed', who=who, iid=iid)
                if spec.get('cancel_delay') is not None:
                    await _pace(spec['cancel_delay'])
                    if not sub.done.is_set():
                        sub.do_cancel()
                for n in spec.get('extra_requests', ()):    # credit granted right behind the request frame
                    if not sub.cancelled:
                        sub._request(n)
                try:
                    await asyncio.wait_for(sub.done.wait(), self.horizon)
                    st['result'] = ('done',)
                except asyncio.TimeoutError:
                    st['result'] = ('pending',)
                for act in spec.get('late_actions', ()):
                    # legal no-ops for a Reactive Streams application once the stream has terminated
                    await _pace(act.get('wait'))
                    if sub.subscription is None:
                        break
                    if act['do'] == 'request':
                        world.log('app_late_request', who=who, iid=iid, n=act['n'])
                        sub.subscription.request(act['n'])
                    else:
                        world.log('app_late_cancel', who=who, iid=iid)
                        sub.subscription.cancel()
        except Exception as e:
            st['result'] = ('call-raised', '%s: %s' % (type(e).__name__, str(e)[:120]))
            world.log('call_raised', who=who, iid=iid, err=repr(e)[:120])


class Pair:
    def __init__(self, rng, cfg, world=None, driver=None):
        self.rng = rng
        self.cfg = cfg
        self.world = world or World()
        self.world.exc_kind = cfg.get('exc_kind', 'runtime')     # type of the exceptions scripted application code raises
        self.driver = driver or Driver(self.world, cfg.get('horizon', 600.0))
        self.link = None
        self.client = None
        self.server = None
        self.handlers = {}
        self.server_kwargs = {}
        self.client_kwargs = {}

    async def start(self, connect=True):
        cfg = self.cfg
        self.link = links.make_link(cfg.get('link', 'bytes'), self.rng, cfg.get('knobs_c'), cfg.get('knobs_s'))
        self.link.tap.listeners.append(self.world.on_wire)
        hs = self.handlers['s'] = ScriptedHandler(self.world, 's', self.driver)
        hc = self.handlers['c'] = ScriptedHandler(self.world, 'c', self.driver)
        ka = timedelta(seconds=cfg.get('keepalive', BIG))
        ml = timedelta(seconds=cfg.get('max_lifetime', 2 * BIG))
        if cfg.get('lease'):
            # a lease-honouring client; the server publishes the scripted leases (the last one is unlimited)
            from .checks.c14 import ScriptedLeasePublisher
            self.server_kwargs = dict(self.server_kwargs, lease_publisher=ScriptedLeasePublisher(cfg['lease']))
            self.client_kwargs = dict(self.client_kwargs, honor_lease=True)
        self.server = RSocketServer(self.link.transports['s'], handler_factory=lambda: hs,
                                    fragment_size_bytes=cfg.get('frag_s'), **self.server_kwargs)

        async def provider():
            yield self.link.transports['c']

        self.client = RSocketClient(provider(), handler_factory=lambda: hc, fragment_size_bytes=cfg.get('frag_c'),
                                    keep_alive_period=ka, max_lifetime_period=ml, **self.client_kwargs)
        if cfg.get('instrument_queue'):
            self.instrument_queue()
        if connect:
            await self.client.connect()
        return self

    def ep(self, side):
        return self.client if side == 'c' else self.server

    async def run_specs(self, specs, settle=5.0):
        world = self.world
        for s in specs:
            world.specs[s['iid']] = s
            world.inter[s['iid']] = {}
        tasks = [asyncio.ensure_future(self.driver.run_interaction(self.ep(s['side']), s['side'], s)) for s in specs]
        if tasks:
            await asyncio.wait(tasks)
        for t in tasks:
            if t.done() and not t.cancelled() and t.exception() is not None:
                raise t.exception()
        await self.quiesce(settle)

    async def quiesce(self, settle=5.0, cap=1.0e6):
        """Wait (in virtual time) until nothing has happened for `settle` seconds and the link is drained."""
        world = self.world
        waited = 0.0
        while waited < cap:
            n = len(world.events)
            await asyncio.sleep(settle)
            for _ in range(5):
                # something delivered at this very instant must get its turn before we conclude that nothing happens
                await asyncio.sleep(0)
            waited += settle
            if len(world.events) == n and self.link_idle():
                return True
        return False

    def link_idle(self):
        link = self.link
        if link.broken:
            return True
        if hasattr(link, 'idle'):
            return link.idle()
        if link.framing == 'bytes':
            return all((not p.buf) or p.task.done() for p in link.pipes.values())
        if hasattr(link, 'sockets'):
            return all(q.empty() for q in link.queues.values()) and all(s.inbox.empty() for s in link.sockets.values()) \
                and all(t._outgoing_frame_queue.empty() for t in link.transports.values())
        return all(q.empty() or link.tasks[k].done() for k, q in link.queues.items())

    def instrument_queue(self):
        """Record, per endpoint, the order in which frames enter its send path (C05, C08)."""
        for side in 'cs':
            instrument_endpoint_queue(self.world, self.ep(side), side)

    def open_streams(self, side):
        ep = self.ep(side)
        return dict(ep._stream_control._streams)

    def partial_frames(self, side):
        ep = self.ep(side)
        return dict(ep._frame_fragment_cache._frames_by_stream_id)

    def tasks_alive(self, side):
        ep = self.ep(side)
        out = {}
        for name in ('_sender_task', '_receiver_task', '_keepalive_task'):
            t = getattr(ep, name, None)
            out[name] = (t is not None and not t.done())
        return out

    async def close(self):
        try:
            await self.client.close()
        except Exception:
            pass
        try:
            await self.server.close()
        except Exception:
            pass
        self.link.stop()


def _raising_factory(world, who, iid, direction):
    """A generator factory (application code) that raises instead of returning a generator."""
    def factory():
        world.log('emit_terminal', who=who, iid=iid, dir=direction, ev='error')
        raise app_exception(world, 'app-error-%d' % iid)
    return factory


def instrument_endpoint_queue(world, ep, side):
    from . import libcodec
    submitted = []      # strong references: id() of a frame still held by the library must stay unique
    seen = set()

    def submit(frame, name):
        # 'submit' = the moment a handler hands a frame to the endpoint (send_request / send_frame /
        # send_priority_frame), whether or not the endpoint sends it on at once (lease gating may retain it)
        if id(frame) in seen:
            return
        seen.add(id(frame))
        submitted.append(frame)
        world.events.append({'t': world.now(), 'kind': 'submit', 'ep': side, 'f': libcodec.snapshot(frame),
                             'priority': name == 'send_priority_frame', 'i': len(world.events)})

    orig_request = ep.send_request

    def request_wrapper(frame, _orig=orig_request):
        submit(frame, 'send_request')
        return _orig(frame)

    ep.send_request = request_wrapper
    for name in ('send_frame', 'send_priority_frame'):
        orig = getattr(ep, name)

        def wrapper(frame, _orig=orig, _name=name):
            # the frame "enters the send path" when it lands in the send queue; a frame the library decides to hold
            # back (behind a request that waits for a lease) is recorded when the library releases it
            submit(frame, _name)
            d = libcodec.snapshot(frame)
            before = ep._send_queue.qsize()
            r = _orig(frame)
            if ep._send_queue.qsize() > before:
                world.events.append({'t': world.now(), 'kind': 'queue', 'ep': side, 'f': d,
                                     'priority': _name == 'send_priority_frame', 'i': len(world.events)})
            return r

        setattr(ep, name, wrapper)


def trace_excerpt(world, limit=80, iid=None):
    """Readable event log excerpt for witnesses."""
    from . import minicodec
    out = []
    for e in world.events:
        if e['kind'] == 'wire':
            if iid is not None:
                pass
            out.append('%.6f %s %s %s' % (e['t'], e['ep'], e['dir'], minicodec.brief(e['f'])))
        elif e['kind'] == 'queue':
            out.append('%.6f %s queue %s%s' % (e['t'], e['ep'], minicodec.brief(e['f']),
                                               ' PRIORITY' if e.get('priority') else ''))
        elif e['kind'] == 'submit':
            continue
        else:
            if iid is not None and e.get('iid') not in (iid, None):
                continue
            extra = {k: v for k, v in e.items() if k not in ('t', 'kind', 'i')}
            out.append('%.6f %s %s' % (e['t'], e['kind'], extra))
    if len(out) > limit:
        out = out[:limit // 2] + ['... %d events omitted ...' % (len(out) - limit)] + out[-limit // 2:]
    return out
