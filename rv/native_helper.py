"""Helper process that runs a check module's `helper_case` with the optional
native extension `cbitstruct` blocked, so that rsocket falls back to its
pure-struct code paths.  Protocol: one JSON request per stdin line, one JSON
response per stdout line; the first output line is a hello with `native`."""
import importlib
import json
import os
import subprocess
import sys

from . import VERIF, assert_repo

_helpers = {}


def get(module_name):
    h = _helpers.get(module_name)
    if h is None:
        env = dict(os.environ)
        env['PYTHONPATH'] = VERIF + os.pathsep + env.get('PYTHONPATH', '')
        env['PYTHONHASHSEED'] = '0'
        p = subprocess.Popen([sys.executable, '-m', 'rv.native_helper', module_name], stdin=subprocess.PIPE,
                             stdout=subprocess.PIPE, stderr=subprocess.DEVNULL, env=env, cwd=VERIF, text=True)
        hello = json.loads(p.stdout.readline())
        h = _helpers[module_name] = (p, hello)
    return h


def ask(module_name, gen, idx, tier, seed):
    p, hello = get(module_name)
    p.stdin.write(json.dumps({'gen': gen, 'idx': idx, 'tier': tier, 'seed': seed}) + '\n')
    p.stdin.flush()
    line = p.stdout.readline()
    if not line:
        raise RuntimeError('native helper died')
    return hello, json.loads(line)


def default_backend_is_cbitstruct():
    import rsocket.frame as F
    return F.ParseHelper.parse_header is not F.parse_header_native


def main():
    sys.modules['cbitstruct'] = None   # makes `import cbitstruct` raise ImportError
    import logging
    logging.disable(logging.CRITICAL)
    assert_repo()
    import rsocket.frame as F
    import rsocket.frame_helpers as H
    from .runner import case_rng
    mod = importlib.import_module(sys.argv[1])
    native = (F.ParseHelper.parse_header is F.parse_header_native) \
        and 'cbitstruct' not in H.pack_24bit.__code__.co_names \
        and 'cbitstruct' not in H.parse_type.__code__.co_names
    sys.stdout.write(json.dumps({'native': bool(native)}) + '\n')
    sys.stdout.flush()
    for line in sys.stdin:
        req = json.loads(line)
        rng = case_rng(req['seed'], mod.ID, req['gen'], req['idx'])
        out = mod.helper_case(req['gen'], req['idx'], rng, req['tier'])
        sys.stdout.write(json.dumps(out) + '\n')
        sys.stdout.flush()


if __name__ == '__main__':
    main()
