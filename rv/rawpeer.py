"""Raw peer: the harness side of a link speaking the wire format itself (mini codec),
so that the peer's behaviour can be scripted frame by frame, including hostile input
the library's own encoder refuses to build."""
import asyncio

from . import minicodec, links


class RawPeer:
    def __init__(self, link, side):
        self.link = link
        self.side = side                      # the side of the link the raw peer occupies
        self.other = 's' if side == 'c' else 'c'
        self.received = []                    # (virtual time, frame dict | {'type': 'UNDECODABLE', 'raw': bytes})
        self.event = asyncio.Event()
        self.eof = False
        self.error = None
        self._task = None
        self.sent = []
        if link.framing == 'bytes':
            self._task = asyncio.ensure_future(self._read_bytes())
        else:
            link.transports[side] = self      # MsgLink delivers messages to rv_deliver / rv_fail

    # ---- receive -----------------------------------------------------------

    def _now(self):
        return asyncio.get_event_loop().time()

    def _got(self, body):
        try:
            f = minicodec.decode(body)
        except Exception as e:
            f = {'type': 'UNDECODABLE', 'sid': -1, 'raw': bytes(body), 'error': repr(e)}
        self.received.append((self._now(), f))
        self.event.set()

    async def _read_bytes(self):
        reader = self.link.readers[self.side]
        buf = bytearray()
        try:
            while True:
                data = await reader.read(65536)
                if not data:
                    self.eof = True
                    self.event.set()
                    return
                buf += data
                recs, rest = minicodec.split_records(bytes(buf))
                buf = bytearray(rest)
                for r in recs:
                    self._got(r)
        except asyncio.CancelledError:
            pass
        except Exception as e:
            self.error = e
            self.event.set()

    async def rv_deliver(self, msg):      # MsgLink
        self._got(msg)

    def rv_fail(self):
        self.error = ConnectionResetError('link cut')
        self.event.set()

    # ---- send --------------------------------------------------------------

    def send(self, frame):
        self.send_raw(minicodec.encode(frame), frame)

    def send_raw(self, body, frame=None):
        self.sent.append((self._now(), frame if frame is not None else {'type': 'RAW', 'raw': bytes(body)}))
        link = self.link
        if link.broken:
            return
        if link.framing == 'bytes':
            link.pipes[self.side].push(minicodec.with_length(body))
        else:
            link.queues[self.side].put_nowait(bytes(body))

    def send_msg(self, kind, data):
        """Glue links only: a websocket message that is not a binary one ('text' with a str, 'ping' / 'pong')."""
        self.sent.append((self._now(), {'type': 'WS-' + kind.upper(), 'raw': data}))
        if not self.link.broken:
            self.link.queues[self.side].put_nowait((kind, data))

    def send_bytes(self, data):
        """ByteLink only: arbitrary bytes, not necessarily record aligned."""
        self.sent.append((self._now(), {'type': 'BYTES', 'raw': bytes(data)}))
        if not self.link.broken:
            self.link.pipes[self.side].push(bytes(data))

    def close(self, mode='eof'):
        """The raw peer ends the connection: orderly ('eof') or with an error."""
        link = self.link
        if link.framing == 'bytes':
            if mode == 'eof':
                link.closed_by(self.side)
            else:
                link.cut('error')
        else:
            link.cut('error')

    # ---- helpers -----------------------------------------------------------

    def frames(self, type_=None, sid=None, since=0):
        out = []
        for t, f in self.received[since:]:
            if type_ is not None and f.get('type') != type_:
                continue
            if sid is not None and f.get('sid') != sid:
                continue
            out.append(f)
        return out

    def reassembled(self, sid, since=0):
        """Frames received on `sid` with fragment runs merged (metadata then data concatenated)."""
        out = []
        run = None
        for f in self.frames(None, sid, since):
            if run is not None and f.get('type') == 'PAYLOAD':
                run['metadata'] = (run.get('metadata') or b'') + (f.get('metadata') or b'') or None
                run['data'] = (run.get('data') or b'') + (f.get('data') or b'')
                run['complete'] = bool(f.get('complete'))
                if f.get('next'):
                    run['next'] = True
                if not f.get('follows'):
                    run['follows'] = False
                    out.append(run)
                    run = None
                continue
            if f.get('follows'):
                run = dict(f)
                continue
            out.append(f)
        if run is not None:
            out.append(run)
        return out

    async def wait_for(self, pred, timeout=30.0, since=0):
        """Wait (virtual time) until some received frame at index >= since satisfies pred."""
        loop = asyncio.get_event_loop()
        deadline = loop.time() + timeout
        while True:
            for i in range(since, len(self.received)):
                if pred(self.received[i][1]):
                    return self.received[i][1]
            if self.eof or self.error is not None:
                return None
            remaining = deadline - loop.time()
            if remaining <= 0:
                return None
            self.event.clear()
            try:
                await asyncio.wait_for(self.event.wait(), remaining)
            except asyncio.TimeoutError:
                return None

    def stop(self):
        if self._task is not None:
            self._task.cancel()


def setup_frame(keepalive_ms=1000000000, lifetime_ms=2000000000, lease=False, resume=False, data=b'', metadata=None,
                token=b'', metadata_mime=b'application/json', data_mime=b'application/json', major=1, minor=0):
    f = {'type': 'SETUP', 'sid': 0, 'major': major, 'minor': minor, 'keepalive_ms': keepalive_ms,
         'lifetime_ms': lifetime_ms, 'lease': lease, 'resume': resume, 'metadata_mime': metadata_mime,
         'data_mime': data_mime, 'metadata': metadata, 'data': data}
    if resume:
        f['token'] = token
    return f


class RawWorld:
    """A real endpoint ('c' = RSocketClient or 's' = RSocketServer) against a raw peer."""

    def __init__(self, rng, real_side, link_kind='bytes', knobs=None, frag=None, world=None, handler=None,
                 client_kwargs=None, server_kwargs=None, keepalive=1.0e6, max_lifetime=2.0e6):
        from .apps import World, ScriptedHandler
        from .pair import Driver
        self.rng = rng
        self.real_side = real_side
        self.raw_side = 's' if real_side == 'c' else 'c'
        self.link_kind = link_kind
        self.knobs = knobs
        self.frag = frag
        self.world = world or World()
        self.driver = Driver(self.world, 120.0)
        self.handler = handler or ScriptedHandler(self.world, real_side, self.driver)
        self.client_kwargs = client_kwargs or {}
        self.server_kwargs = server_kwargs or {}
        self.keepalive = keepalive
        self.max_lifetime = max_lifetime
        self.ep = None
        self.peer = None
        self.link = None

    async def start(self, connect=True, send_setup=True):
        from datetime import timedelta
        from rsocket.rsocket_client import RSocketClient
        from rsocket.rsocket_server import RSocketServer
        kn = {self.real_side: self.knobs, self.raw_side: None}
        self.link = links.make_link(self.link_kind, self.rng, kn.get('c'), kn.get('s'))
        self.link.tap.listeners.append(self.world.on_wire)
        self.peer = RawPeer(self.link, self.raw_side)
        h = self.handler
        if self.real_side == 's':
            self.ep = RSocketServer(self.link.transports['s'], handler_factory=lambda: h,
                                    fragment_size_bytes=self.frag, **self.server_kwargs)
            from .pair import instrument_endpoint_queue
            instrument_endpoint_queue(self.world, self.ep, self.real_side)
            if send_setup:
                self.peer.send(setup_frame())
        else:
            link = self.link

            async def provider():
                yield link.transports['c']

            kw = dict(keep_alive_period=timedelta(seconds=self.keepalive),
                      max_lifetime_period=timedelta(seconds=self.max_lifetime))
            kw.update(self.client_kwargs)
            self.ep = RSocketClient(provider(), handler_factory=lambda: h, fragment_size_bytes=self.frag, **kw)
            from .pair import instrument_endpoint_queue
            instrument_endpoint_queue(self.world, self.ep, self.real_side)
            if connect:
                await self.ep.connect()
        return self

    def real_sent(self, since=0):
        """Frames the real endpoint put on the wire (its tap)."""
        return [e[3] for e in self.link.tap.events[since:] if e[1] == self.real_side and e[2] == 'send']

    async def settle(self, t=1.0):
        await asyncio.sleep(t)

    async def close(self):
        try:
            await self.ep.close()
        except Exception:
            pass
        self.peer.stop()
        self.link.stop()
