import argparse
import os
import sys

from . import assert_repo
from . import runner


def main(argv=None):
    ap = argparse.ArgumentParser(prog='rv')
    sub = ap.add_subparsers(dest='cmd', required=True)
    c = sub.add_parser('check')
    c.add_argument('id')
    c.add_argument('--tier', default=os.environ.get('VERIF_TIER') or 'quick', choices=['quick', 'thorough'])
    c.add_argument('--seed', type=int, default=int(os.environ.get('VERIF_SEED') or 0))
    c.add_argument('--jobs', type=int, default=None)
    c.add_argument('--keep', action='store_true')
    s = sub.add_parser('shard')
    s.add_argument('id')
    s.add_argument('--tier', required=True)
    s.add_argument('--seed', type=int, required=True)
    s.add_argument('--shard', type=int, required=True)
    s.add_argument('--nshards', type=int, required=True)
    s.add_argument('--out', required=True)
    s.add_argument('--budget', type=float, default=1e9)
    r = sub.add_parser('replay')
    r.add_argument('path')
    o = sub.add_parser('one')
    o.add_argument('id')
    o.add_argument('gen')
    o.add_argument('idx', type=int)
    o.add_argument('--tier', default='quick')
    o.add_argument('--seed', type=int, default=0)
    a = ap.parse_args(argv)
    assert_repo()
    if a.cmd == 'check':
        return runner.check_main(a.id.upper(), a.tier, a.seed, a.jobs, a.keep)
    if a.cmd == 'shard':
        runner.shard_main(a.id.upper(), a.tier, a.seed, a.shard, a.nshards, a.out, a.budget)
        return 0
    if a.cmd == 'replay':
        return runner.replay_main(a.path)
    if a.cmd == 'one':
        import logging
        logging.disable(logging.CRITICAL)
        mod = runner.load_check(a.id.upper())
        res = runner.run_one(mod, a.gen, a.idx, a.seed, a.tier)
        print(runner.dumps(res, indent=1))
        return 1 if res['witnesses'] else 0


if __name__ == '__main__':
    sys.exit(main())
