"""Virtual-time asyncio event loop.

`VirtualLoop` is a stock SelectorEventLoop whose selector never blocks: when the
loop would sleep for `timeout` seconds the virtual clock is advanced by that
amount instead.  `loop.time()` is the virtual clock.  Nothing else about
scheduling is changed (ready callbacks run in registration order, timers by
deadline).
"""
import asyncio
import datetime as _dt
import selectors
import sys
import time as _time

EPOCH = _dt.datetime(2030, 1, 1, 0, 0, 0)


class Deadlock(Exception):
    """Nothing is ready and no timer is scheduled: the system is blocked for ever."""


class _VirtualSelector(selectors.DefaultSelector):
    def __init__(self, *a, **kw):
        super().__init__(*a, **kw)
        self.vloop = None

    def select(self, timeout=None):
        events = super().select(0)
        if events:
            return events
        loop = self.vloop
        if timeout is None:
            raise Deadlock()
        if timeout > 0:
            new = loop._vtime + timeout
            sched = loop._scheduled
            if sched:
                when = sched[0]._when
                if abs(when - new) < 1e-9:
                    new = when
            # timer lateness: a real loop wakes a sleeper slightly after its deadline, never exactly on it
            loop._vtime = new + loop._rv_lateness
        return []


class RecFuture(asyncio.Future):
    """A Future that logs every resolution attempt (used for futures created by
    rsocket.helpers.create_future, i.e. the ones the library hands to applications)."""

    def __init__(self, *, loop=None):
        super().__init__(loop=loop)
        self.rv_log = []
        self.rv_tag = None

    def _rv_log(self, what, arg=None):
        self.rv_log.append((what, self.done(), arg))

    def set_result(self, result):
        self._rv_log('set_result')
        return super().set_result(result)

    def set_exception(self, exception):
        self._rv_log('set_exception', type(exception).__name__)
        return super().set_exception(exception)

    def cancel(self, msg=None):
        self._rv_log('cancel')
        return super().cancel(msg)


class VirtualLoop(asyncio.SelectorEventLoop):
    def __init__(self):
        sel = _VirtualSelector()
        super().__init__(sel)
        sel.vloop = self
        self._vtime = 0.0
        self._rv_lateness = 0.0
        self._rv_create_future_code = None
        self.rec_futures = []
        try:
            import rsocket.helpers as h
            self._rv_create_future_code = h.create_future.__code__
        except Exception:
            pass

    def time(self):
        return self._vtime

    def create_future(self):
        code = self._rv_create_future_code
        if code is not None and sys._getframe(1).f_code is code:
            f = RecFuture(loop=self)
            self.rec_futures.append(f)
            return f
        return super().create_future()


_CURRENT = None


def current_loop():
    return _CURRENT


class VDateTime(_dt.datetime):
    @classmethod
    def now(cls, tz=None):
        loop = _CURRENT
        if loop is None:
            return _dt.datetime.now(tz)
        return EPOCH + _dt.timedelta(seconds=loop.time())


_patched = False


def patch_clock():
    """Redirect the wall-clock reads of the library to the virtual clock.  This is
    instrumentation in the harness process, not a change to the repository."""
    global _patched
    if _patched:
        return
    import rsocket.rsocket_client
    import rsocket.lease
    n = 0
    for name, mod in list(sys.modules.items()):
        if not (name == 'rsocket' or name.startswith('rsocket.')) or mod is None:
            continue
        if getattr(mod, 'datetime', None) is _dt.datetime:
            mod.datetime = VDateTime
            n += 1
    _patched = True
    return n


def clock_selftest():
    """Prove that the redirection took effect: a DefinedLease with a 1 s ttl must
    flip from allowed to not allowed when (and only when) virtual time passes."""
    from rsocket.lease import DefinedLease

    async def main():
        lease = DefinedLease(5, _dt.timedelta(seconds=1))
        a = lease.is_request_allowed()
        await asyncio.sleep(0.5)
        b = lease.is_request_allowed()
        await asyncio.sleep(0.6)
        c = lease.is_request_allowed()
        return a, b, c

    w0 = _time.monotonic()
    res = run(main())
    return res == (True, True, False) and (_time.monotonic() - w0) < 1.0


def run(coro, debug=False, lateness=0.0):
    """Run `coro` to completion on a fresh VirtualLoop; returns its result. `lateness`: seconds by which every
    timer fires after its deadline (0 = exactly on it, which no real loop does)."""
    global _CURRENT
    patch_clock()
    loop = VirtualLoop()
    loop._rv_lateness = lateness
    prev = _CURRENT
    _CURRENT = loop
    asyncio.set_event_loop(loop)
    try:
        return loop.run_until_complete(coro)
    finally:
        try:
            _cancel_all(loop)
        finally:
            asyncio.set_event_loop(None)
            loop.close()
            _CURRENT = prev


def _cancel_all(loop):
    to_cancel = [t for t in asyncio.all_tasks(loop) if not t.done()]
    if not to_cancel:
        return
    for t in to_cancel:
        t.cancel()
    try:
        loop.run_until_complete(asyncio.gather(*to_cancel, return_exceptions=True))
    except BaseException:
        pass
    for t in to_cancel:
        if t.done() and not t.cancelled():
            try:
                t.exception()
            except BaseException:
                pass


async def ticks(n=1):
    for _ in range(n):
        await asyncio.sleep(0)
