"""Recording applications: payload factory, ledger ("world"), subscribers, publishers,
handler.  Everything an application hands to the library and everything the library
hands back is logged with virtual time in World.events."""
import asyncio
import hashlib
import random
import struct

from reactivestreams.publisher import Publisher
from reactivestreams.subscriber import Subscriber
from reactivestreams.subscription import Subscription
from rsocket.payload import Payload
from rsocket.request_handler import RequestHandler

MAGIC = b'RVrv'
HEADER_LEN = 8
MAX_N = 0x7FFFFFFF

DIR_REQUEST, DIR_RESPONSE, DIR_CHANNEL_UP = 0, 1, 2


def nb(x):
    return bytes(x) if x else b''


def pkey(payload):
    """Comparable (data, metadata) of a payload, None == empty."""
    if payload is None:
        return None
    return (nb(payload.data), nb(payload.metadata))


def pbrief(k):
    if k is None:
        return None
    d, m = k
    return 'd%d:%s m%d:%s' % (len(d), hashlib.sha1(d).hexdigest()[:6], len(m), hashlib.sha1(m).hexdigest()[:6])


def make_payload(iid, direction, seq, dl, ml, none_for_empty=False):
    r = random.Random((iid << 40) | (direction << 36) | seq)
    data = r.randbytes(dl) if dl else b''
    md = r.randbytes(ml) if ml else b''
    if direction == DIR_REQUEST:
        hdr = MAGIC + struct.pack('>I', iid)
        if dl >= HEADER_LEN:
            data = hdr + data[HEADER_LEN:]
        elif ml >= HEADER_LEN:
            md = hdr + md[HEADER_LEN:]
        else:
            raise ValueError('request payload too small for the header')
    if none_for_empty:
        return Payload(data or None, md or None)
    return Payload(data, md)


def identify(payload):
    """iid carried by a request payload, or None."""
    for part in (payload.data, payload.metadata):
        part = nb(part)
        if len(part) >= HEADER_LEN and part[:4] == MAGIC:
            return struct.unpack('>I', part[4:8])[0]
    return None


EXC_KINDS = ('runtime', 'runtime', 'value', 'conn-refused', 'broken-pipe', 'timeout-noargs', 'key', 'lookup', 'bare',
             'not-implemented', 'os', 'protocol-error-without-message')


def app_exception(world, msg):
    """The exception a piece of scripted application code raises; its type is a property of the run (World.exc_kind)
    so that containment is exercised with the exception classes the library treats specially elsewhere."""
    kind = getattr(world, 'exc_kind', 'runtime')
    if kind == 'value':
        return ValueError(msg)
    if kind == 'conn-refused':
        return ConnectionRefusedError(111, msg)
    if kind == 'broken-pipe':
        return BrokenPipeError(32, msg)
    if kind == 'timeout-noargs':
        return TimeoutError()
    if kind == 'key':
        return KeyError(msg)
    if kind == 'lookup':
        return LookupError(msg)
    if kind == 'bare':
        return Exception()
    if kind == 'not-implemented':
        return NotImplementedError(msg)
    if kind == 'os':
        return OSError(5, msg)
    if kind == 'protocol-error-without-message':
        from rsocket.exceptions import RSocketProtocolError
        from rsocket.error_codes import ErrorCode
        return RSocketProtocolError(ErrorCode.REJECTED)
    return RuntimeError(msg)


class World:
    def __init__(self):
        self.events = []      # dicts: t, kind, + fields ; single global order (wire + api)
        self.specs = {}       # iid -> interaction spec
        self.inter = {}       # iid -> per-interaction state (recorders)
        self.n = 0

    def now(self):
        try:
            self._last_t = asyncio.get_event_loop().time()
        except RuntimeError:      # e.g. a generator finalised by the garbage collector after the run
            pass
        return getattr(self, '_last_t', 0.0)

    def log(self, kind, **kw):
        kw['t'] = self.now()
        kw['kind'] = kind
        kw['i'] = len(self.events)
        self.events.append(kw)
        return kw

    def on_wire(self, ev):
        t, ep, direction, d = ev
        self.events.append({'t': t, 'kind': 'wire', 'ep': ep, 'dir': direction, 'f': d, 'i': len(self.events)})

    def api(self, iid=None, **match):
        out = []
        for e in self.events:
            if e['kind'] in ('wire', 'queue'):
                continue
            if iid is not None and e.get('iid') != iid:
                continue
            if all(e.get(k) == v for k, v in match.items()):
                out.append(e)
        return out

    def signature(self):
        h = hashlib.sha256()
        for e in self.events:
            if e['kind'] == 'wire':
                f = e['f']
                h.update(('%s%s%s%d%d%d%d|' % (e['ep'], e['dir'][0], f.get('type'), f.get('sid', 0),
                                                 bool(f.get('follows')), bool(f.get('complete')),
                                                 bool(f.get('next')))).encode())
            elif e['kind'] not in ('queue', 'submit'):
                h.update(('%s%s%s|' % (e['kind'], e.get('who', ''), e.get('iid', ''))).encode())
        return h.hexdigest()[:16]


class RecSubscriber(Subscriber):
    """Records callbacks; grants credit by policy; may cancel after the k-th element; may raise."""

    def __init__(self, world, iid, direction, who, policy=('refill', MAX_N, 0), cancel_after=None,
                 initial_granted=0, raise_in=None, request_on_subscribe=None):
        self.world = world
        self.iid = iid
        self.direction = direction
        self.who = who
        self.policy = policy
        self.cancel_after = cancel_after
        self.granted = initial_granted
        self.request_on_subscribe = request_on_subscribe
        self.received = 0
        self.values = []
        self.log = []              # ('on_subscribe'|'on_next'|'on_next_complete'|'on_complete'|'on_error', ...)
        self.subscription = None
        self.cancelled = False
        self.done = asyncio.Event()
        self.raise_in = raise_in or ()
        self.requests = []         # n values passed to subscription.request by this application
        self.after_cancel = []

    def _rec(self, what, **kw):
        self.log.append(what)
        if self.cancelled:
            self.after_cancel.append(what)
        self.world.log('sub', who=self.who, iid=self.iid, dir=self.direction, ev=what, **kw)

    def _request(self, n):
        self.requests.append(n)
        self.granted = min(MAX_N, self.granted + n)
        self.world.log('app_request', who=self.who, iid=self.iid, dir=self.direction, n=n)
        self.subscription.request(n)

    def do_cancel(self):
        if self.subscription is not None:
            self.world.log('app_cancel', who=self.who, iid=self.iid, dir=self.direction)
            self.cancelled = True
            self.subscription.cancel()
            self.world.log('app_cancel_returned', who=self.who, iid=self.iid, dir=self.direction)
            self.done.set()

    def on_subscribe(self, subscription: Subscription):
        self.subscription = subscription
        self._rec('on_subscribe')
        if 'on_subscribe' in self.raise_in:
            raise app_exception(self.world, 'subscriber %s raises in on_subscribe' % self.iid)
        if self.cancel_after == 0:
            self.do_cancel()
            return
        if self.request_on_subscribe:
            self._request(self.request_on_subscribe)

    def on_next(self, value, is_complete=False):
        self.received += 1
        k = pkey(value)
        self.values.append(k)
        self._rec('on_next_complete' if is_complete else 'on_next', p=pbrief(k))
        if is_complete:
            self.done.set()
        if 'on_next' in self.raise_in:
            raise app_exception(self.world, 'subscriber %s raises in on_next' % self.iid)
        if is_complete or self.cancelled:
            return
        if self.cancel_after is not None and self.received >= self.cancel_after:
            self.do_cancel()
            return
        pol = self.policy
        if pol[0] == 'refill':
            outstanding = self.granted - self.received
            if outstanding <= pol[2] and self.granted < MAX_N:
                self._request(pol[1])
        elif pol[0] == 'burst':
            # several grants back to back (request(1); request(2); request(3)): they pile up at the producer
            outstanding = self.granted - self.received
            if outstanding <= pol[2] and self.granted < MAX_N:
                for n in pol[1]:
                    self._request(n)
        elif pol[0] == 'late':
            outstanding = self.granted - self.received
            if outstanding <= pol[2] and self.granted < MAX_N:
                asyncio.ensure_future(self._late(pol[1], pol[3]))

    async def _late(self, n, delay):
        await _pace(delay)
        if not self.cancelled and not self.done.is_set():
            self._request(n)

    def on_error(self, exception):
        self._rec('on_error', err='%s: %s' % (type(exception).__name__, str(exception)[:80]))
        self.done.set()
        if 'on_error' in self.raise_in:
            raise app_exception(self.world, 'subscriber %s raises in on_error' % self.iid)

    def on_complete(self):
        self._rec('on_complete')
        self.done.set()
        if 'on_complete' in self.raise_in:
            raise app_exception(self.world, 'subscriber %s raises in on_complete' % self.iid)


async def _pace(spec):
    if spec is None or spec[0] == 'none':
        return
    if spec[0] == 'ticks':
        for _ in range(spec[1]):
            await asyncio.sleep(0)
    elif spec[0] == 'virtual':
        await asyncio.sleep(spec[1])


class RecPublisher(Publisher, Subscription):
    """Emits scripted elements under credit.  pacing: ('sync',) inside request();
    ('tick',) one element per loop tick; ('burst', b) b per tick; ('timed', s) one per s virtual seconds."""

    def __init__(self, world, iid, direction, who, elems, terminal='complete', pacing=('sync',),
                 raise_in=None, empty_none=False):
        self.world = world
        self.iid = iid
        self.direction = direction
        self.who = who
        self.elems = list(elems)
        self.terminal = terminal
        self.pacing = pacing
        self.subscriber = None
        self.credit = 0
        self.next = 0
        self.finished = False
        self.cancelled = False
        self.cancel_calls = 0
        self.request_log = []
        self.emitted = []           # payload keys handed to the library, in order
        self.emitted_after_cancel = 0
        self._task = None
        self._busy = False
        self.raise_in = raise_in or ()
        self.empty_none = empty_none

    def subscribe(self, subscriber: Subscriber):
        self.subscriber = subscriber
        self.world.log('pub', who=self.who, iid=self.iid, dir=self.direction, ev='subscribed')
        if 'subscribe' in self.raise_in:
            raise app_exception(self.world, 'publisher %s raises in subscribe' % self.iid)
        subscriber.on_subscribe(self)
        if not self.elems:
            self._kick()

    def request(self, n: int):
        self.request_log.append(n)
        self.world.log('pub', who=self.who, iid=self.iid, dir=self.direction, ev='request', n=n)
        if 'request' in self.raise_in:
            raise app_exception(self.world, 'publisher %s raises in request' % self.iid)
        self.credit = min(MAX_N, self.credit + n)
        self._kick()

    def cancel(self):
        self.cancel_calls += 1
        self.cancelled = True
        self.world.log('pub', who=self.who, iid=self.iid, dir=self.direction, ev='cancel')
        if 'cancel' in self.raise_in:
            raise app_exception(self.world, 'publisher %s raises in cancel' % self.iid)

    def _kick(self):
        if self.finished or self.cancelled:
            return
        if self.pacing[0] == 'sync':
            if self._busy:
                return
            self._busy = True
            try:
                while self._can_emit():
                    self._emit_one()
                self._maybe_finish()
            finally:
                self._busy = False
        elif self._task is None or self._task.done():
            self._task = asyncio.ensure_future(self._pump())

    def _can_emit(self):
        return not self.finished and not self.cancelled and self.next < len(self.elems) and self.credit > 0

    async def _pump(self):
        mode = self.pacing[0]
        while True:
            if mode == 'timed':
                await asyncio.sleep(self.pacing[1])
            else:
                await asyncio.sleep(0)
            burst = self.pacing[1] if mode == 'burst' else 1
            did = False
            for _ in range(burst):
                if self._can_emit():
                    self._emit_one()
                    did = True
            self._maybe_finish()
            if self.finished or self.cancelled or not did:
                return

    def _emit_one(self):
        seq = self.next
        self.next += 1
        self.credit -= 1
        dl, ml = self.elems[seq]
        payload = make_payload(self.iid, self.direction, seq, dl, ml, none_for_empty=self.empty_none)
        last = seq == len(self.elems) - 1
        flag = last and self.terminal == 'flag'
        k = pkey(payload)
        self.emitted.append(k)
        self.world.log('emit', who=self.who, iid=self.iid, dir=self.direction, seq=seq, p=pbrief(k), complete=flag)
        if flag:
            self.finished = True
        self.subscriber.on_next(payload, is_complete=flag)

    def _maybe_finish(self):
        if self.finished or self.cancelled or self.next < len(self.elems):
            return
        t = self.terminal
        if t == 'never':
            return
        if t == 'flag' and self.elems:
            return
        self.finished = True
        if t in ('complete', 'flag'):
            self.world.log('emit_terminal', who=self.who, iid=self.iid, dir=self.direction, ev='complete')
            self.subscriber.on_complete()
        elif t == 'error':
            self.world.log('emit_terminal', who=self.who, iid=self.iid, dir=self.direction, ev='error')
            self.subscriber.on_error(app_exception(self.world, 'app-error-%d' % self.iid))


class ScriptedHandler(RequestHandler):
    """RequestHandler whose behaviour per request is looked up in world.specs by the iid the
    request payload carries.  Every entry point logs its invocation."""

    def __init__(self, world, side, factory):
        self.world = world
        self.side = side           # the endpoint this handler belongs to ('c' or 's')
        self.factory = factory     # object with make_* hooks (see pair.py)
        self.close_calls = 0
        self.setup_calls = []
        self.errors = []
        self.keepalive_timeouts = []
        self.connection_errors = []
        self.on_close_hook = None
        self.on_keepalive_timeout_hook = None
        self.raise_in = ()

    def _who(self):
        return self.side + '-handler'

    def _deliver_request(self, model, payload):
        iid = identify(payload)
        k = pkey(payload)
        self.world.log('handler', who=self._who(), iid=iid, model=model, p=pbrief(k))
        st = self.world.inter.get(iid)
        if st is not None:
            st.setdefault('request_deliveries', []).append((model, k, self.side))
        else:
            self.world.inter.setdefault(('unidentified', self.side), {}).setdefault('request_deliveries', []).append(
                (model, k, self.side))
        return iid

    async def on_setup(self, data_encoding, metadata_encoding, payload):
        self.setup_calls.append((nb(data_encoding), nb(metadata_encoding), pkey(payload)))
        self.world.log('on_setup', who=self._who())
        if 'on_setup' in self.raise_in:
            raise getattr(self, 'raise_exc', None) or RuntimeError('on_setup raises')

    async def on_metadata_push(self, payload):
        iid = self._deliver_request('push', payload)
        await self.factory.handler_entry(self, iid, 'push')

    async def request_fire_and_forget(self, payload):
        iid = self._deliver_request('fnf', payload)
        await self.factory.handler_entry(self, iid, 'fnf')

    async def request_response(self, payload):
        iid = self._deliver_request('rr', payload)
        await self.factory.handler_entry(self, iid, 'rr')
        return self.factory.make_response(self, iid)

    async def request_stream(self, payload):
        iid = self._deliver_request('stream', payload)
        await self.factory.handler_entry(self, iid, 'stream')
        return self.factory.make_stream(self, iid)

    async def request_channel(self, payload):
        iid = self._deliver_request('channel', payload)
        await self.factory.handler_entry(self, iid, 'channel')
        return self.factory.make_channel(self, iid)

    async def on_error(self, error_code, payload):
        self.errors.append((int(error_code), pkey(payload)))
        self.world.log('on_error', who=self._who(), code=int(error_code))

    async def on_keepalive_timeout(self, time_since_last_keepalive, rsocket):
        self.keepalive_timeouts.append(time_since_last_keepalive.total_seconds())
        self.world.log('on_keepalive_timeout', who=self._who(), since=time_since_last_keepalive.total_seconds())
        if self.on_keepalive_timeout_hook is not None:
            await self.on_keepalive_timeout_hook(rsocket)

    async def on_connection_error(self, rsocket, exception):
        self.connection_errors.append(repr(exception))
        self.world.log('on_connection_error', who=self._who(), err=repr(exception)[:80])

    async def on_close(self, rsocket, exception=None):
        self.close_calls += 1
        self.world.log('on_close', who=self._who())
        if self.on_close_hook is not None:
            await self.on_close_hook(rsocket)
        if 'on_close' in self.raise_in:
            raise app_exception(self.world, 'on_close raises')
