"""Case runner: shards, verdicts, known findings, evidence, replay files."""
import hashlib
import importlib
import json
import os
import random
import shutil
import signal
import subprocess
import sys
import tempfile
import time
import traceback

from . import VERIF, REPO

EXIT_HELD, EXIT_VIOLATION, EXIT_INCONCLUSIVE = 0, 1, 2


class CaseTimeout(BaseException):
    pass


def case_rng(seed, check_id, gen, idx):
    h = hashlib.sha256(('%s|%s|%s|%s' % (seed, check_id, gen, idx)).encode()).digest()
    rng = random.Random(int.from_bytes(h[:8], 'big'))
    rng.rv_seed = seed
    return rng


def short_hash(obj):
    return hashlib.sha256(json.dumps(obj, sort_keys=True, default=_json_default).encode()).hexdigest()[:16]


def _json_default(o):
    if isinstance(o, (bytes, bytearray)):
        if len(o) > 48:
            return 'hex:%s..(%d bytes)' % (bytes(o[:24]).hex(), len(o))
        return 'hex:' + bytes(o).hex()
    if isinstance(o, set):
        return sorted(o)
    return repr(o)


def dumps(o, **kw):
    return json.dumps(o, default=_json_default, **kw)


def load_check(check_id):
    return importlib.import_module('rv.checks.%s' % check_id.lower())


def load_known_findings():
    path = os.path.join(VERIF, 'known_findings.json')
    try:
        with open(path) as fh:
            return json.load(fh)
    except FileNotFoundError:
        return {'findings': [], 'fixed': []}


# ---------------------------------------------------------------------------
# shard (child process)


def _alarm(signum, frame):
    raise CaseTimeout()


def run_one(mod, gen, idx, seed, tier):
    rng = case_rng(seed, mod.ID, gen, idx)
    limit = 180 if tier == 'quick' else 600
    limit = getattr(mod, 'CASE_WALL_LIMIT', {}).get(tier, limit)
    signal.signal(signal.SIGALRM, _alarm)
    signal.setitimer(signal.ITIMER_REAL, limit)
    t0 = time.monotonic()
    try:
        res = mod.run_case(gen, idx, rng, tier)
    except CaseTimeout:
        res = {'inconclusive': 'case wall-clock watchdog (%ds) fired' % limit}
    except Exception:
        res = {'inconclusive': 'harness exception: ' + traceback.format_exc(limit=8)}
    finally:
        signal.setitimer(signal.ITIMER_REAL, 0)
    res.setdefault('witnesses', [])
    res['gen'] = gen
    res['idx'] = idx
    res['wall'] = round(time.monotonic() - t0, 4)
    return res


def shard_main(check_id, tier, seed, shard, nshards, out_path, budget_s):
    import logging
    logging.disable(logging.CRITICAL)
    mod = load_check(check_id)
    plan = mod.plan(tier, seed)
    t_start = time.monotonic()
    with open(out_path, 'w') as out:
        k = 0
        skipped = {}
        mine = []
        for gen, count in plan:
            for idx in range(count):
                k += 1
                if k % nshards == shard:
                    mine.append((idx / float(max(1, count)), gen, idx))
        # all generators advance evenly, so that an exhausted budget thins every generator instead of dropping the last
        mine.sort(key=lambda x: x[0])
        for _, gen, idx in mine:
            if time.monotonic() - t_start > budget_s:
                skipped[gen] = skipped.get(gen, 0) + 1
                continue
            res = run_one(mod, gen, idx, seed, tier)
            out.write(dumps(res) + '\n')
        out.write(dumps({'shard_done': shard, 'skipped': skipped}) + '\n')


# ---------------------------------------------------------------------------
# parent


def check_main(check_id, tier, seed, jobs=None, keep=False):
    mod = load_check(check_id)
    t0 = time.monotonic()
    nproc = os.cpu_count() or 1
    plan = mod.plan(tier, seed)
    total = sum(c for _, c in plan)
    nshards = max(1, min(jobs or 16, nproc, total))
    budget = max(getattr(mod, 'BUDGET_S', {'quick': 90, 'thorough': 1500})[tier], 600 if tier == 'quick' else 2400)
    tmp = tempfile.mkdtemp(prefix='rv-%s-' % check_id)
    procs = []
    env = dict(os.environ)
    env['PYTHONHASHSEED'] = '0'
    env['PYTHONPATH'] = VERIF + os.pathsep + env.get('PYTHONPATH', '')
    for i in range(nshards):
        outp = os.path.join(tmp, 'shard-%d.jsonl' % i)
        errp = os.path.join(tmp, 'shard-%d.err' % i)
        cmd = [sys.executable, '-m', 'rv', 'shard', check_id, '--tier', tier, '--seed', str(seed),
               '--shard', str(i), '--nshards', str(nshards), '--out', outp, '--budget', str(budget)]
        procs.append((subprocess.Popen(cmd, env=env, cwd=VERIF, stdout=subprocess.DEVNULL,
                                       stderr=open(errp, 'w')), outp, errp))
    results = []
    shard_problems = []
    skipped = {}
    deadline = time.monotonic() + budget + 900
    for p, outp, errp in procs:
        try:
            rc = p.wait(timeout=max(1, deadline - time.monotonic()))
        except subprocess.TimeoutExpired:
            p.kill()
            p.wait()
            rc = 'timeout'
        done = False
        try:
            with open(outp) as fh:
                for line in fh:
                    line = line.strip()
                    if not line:
                        continue
                    try:
                        r = json.loads(line)
                    except ValueError:
                        continue
                    if 'shard_done' in r:
                        done = True
                        for g, n in r.get('skipped', {}).items():
                            skipped[g] = skipped.get(g, 0) + n
                    else:
                        results.append(r)
        except FileNotFoundError:
            pass
        if rc != 0 or not done:
            err = ''
            try:
                err = open(errp).read()[-2000:]
            except Exception:
                pass
            shard_problems.append('shard rc=%s done=%s %s' % (rc, done, err))
    if not keep:
        shutil.rmtree(tmp, ignore_errors=True)
    return conclude(mod, tier, seed, plan, results, shard_problems, skipped, time.monotonic() - t0)


def conclude(mod, tier, seed, plan, results, shard_problems, skipped, wall):
    OUT = os.environ.get('RV_OUT') or VERIF     # self-tests against a scratch copy write their output elsewhere
    kf = load_known_findings()
    known = {(f['property'], f['key']): f for f in kf.get('findings', [])}
    evaluations = 0
    nt_keys = set()
    nt_count = 0
    sigs = set()
    counts = {}
    deciding = {}
    inconclusive = []
    per_gen = {}
    witnesses_by_key = {}
    samples = []
    exhaustive_gens = set(getattr(mod, 'EXHAUSTIVE_GENS', ()))
    for r in results:
        ev = r.get('evals', 1)
        evaluations += ev
        g = per_gen.setdefault(r['gen'], {'cases': 0, 'evaluations': 0})
        g['cases'] += 1
        g['evaluations'] += ev
        if r.get('inconclusive'):
            inconclusive.append({'gen': r['gen'], 'idx': r['idx'], 'reason': r['inconclusive']})
            continue
        for k in r.get('nt_keys', ()):
            nt_keys.add(k)
        nt_count += r.get('nt_count', 0)
        for s in r.get('sigs', ()):
            sigs.add(s)
        for k, v in r.get('counts', {}).items():
            counts[k] = counts.get(k, 0) + v
        for k, v in r.get('deciding', {}).items():
            deciding[k] = deciding.get(k, 0) + v
        if r.get('sample') is not None and len(samples) < 4 and (r.get('nt_keys') or r.get('nt_count')):
            samples.append({'gen': r['gen'], 'idx': r['idx'], 'case': r['sample']})
        for w in r['witnesses']:
            key = mod.classify(w) if hasattr(mod, 'classify') else None
            w['_key'] = key
            slot = witnesses_by_key.setdefault(key or ('new:' + w.get('clause', '?')), [])
            slot.append((r, w))
    if not samples:
        for r in results:
            if r.get('sample') is not None:
                samples.append({'gen': r['gen'], 'idx': r['idx'], 'case': r['sample']})
                if len(samples) >= 3:
                    break

    lines = []
    violations = 0
    known_seen = {}
    os.makedirs(os.path.join(OUT, 'replays'), exist_ok=True)
    for key, lst in sorted(witnesses_by_key.items(), key=lambda kv: str(kv[0])):
        r, w = min(lst, key=lambda rw: (len(dumps(rw[1])), rw[0]['gen'], rw[0]['idx']))
        if (mod.ID, key) in known:
            known_seen[key] = len(lst)
            lines.append('KNOWN-FINDING: property=%s %s (key=%s, seen %d times this run)'
                         % (mod.ID, known[(mod.ID, key)]['what'], key, len(lst)))
            continue
        violations += len(lst)
        rp = os.path.join(OUT, 'replays', '%s-%s.json' % (mod.ID, short_hash([key, r['gen'], r['idx'], seed])))
        with open(rp, 'w') as fh:
            fh.write(dumps({'property': mod.ID, 'tier': tier, 'seed': seed, 'gen': r['gen'], 'idx': r['idx'],
                            'mechanism': key, 'occurrences': len(lst), 'witness': w,
                            'case': r.get('sample')}, indent=1))
        lines.append('VIOLATION property=%s replay=%s' % (mod.ID, rp))
        lines.append('  clause=%s mechanism=%s occurrences=%d detail=%s'
                     % (w.get('clause'), key, len(lst), dumps(w.get('detail'))[:600]))

    distinct_nt = len(nt_keys) + nt_count
    expected = sum(c for _, c in plan)
    n_results = len(results)
    reasons = []
    if shard_problems:
        reasons.append('; '.join(shard_problems)[:800])
    if inconclusive and len(inconclusive) > max(0, 0.01 * max(1, n_results)):
        reasons.append('%d/%d cases inconclusive, first: %s' % (len(inconclusive), n_results,
                                                               inconclusive[0]['reason'][:400]))
    need = getattr(mod, 'DECIDING_REQUIRED', ())
    for name in need:
        if deciding.get(name, 0) == 0:
            reasons.append('deciding point never reached: %s' % name)
    if distinct_nt < 2:
        reasons.append('fewer than 2 distinct non-trivial cases')
    nskipped = sum(skipped.values())
    exhaustive = bool(exhaustive_gens) and nskipped == 0 and not inconclusive and not shard_problems \
        and all(g in per_gen for g in exhaustive_gens)

    coverage = {
        'evaluations': evaluations,
        'distinct_nontrivial': distinct_nt,
        'rule': mod.RULE,
        'samples': samples,
        'cases_planned': expected,
        'cases_executed': n_results,
        'cases_skipped_budget': skipped,
        'per_generator': per_gen,
        'events_observed': counts,
        'deciding_points': deciding,
        'distinct_schedule_signatures': len(sigs),
        'inconclusive_cases': len(inconclusive),
        'known_findings_seen': known_seen,
        'repo': REPO,
    }
    if exhaustive_gens:
        coverage['exhaustive'] = exhaustive
        coverage['exhaustive_generators'] = sorted(exhaustive_gens)
    if hasattr(mod, 'extra_coverage'):
        coverage.update(mod.extra_coverage(results))
    evidence = {
        'property_id': mod.ID,
        'tier': tier,
        'seed': seed,
        'level': mod.LEVEL,
        'coverage': coverage,
        'assumptions': list(getattr(mod, 'ASSUMPTIONS', [])),
        'wall_s': round(wall, 2),
        'violations': violations,
    }
    if reasons and not violations:
        evidence['verdict'] = 'inconclusive'
        evidence['inconclusive_reasons'] = reasons
    else:
        evidence['verdict'] = 'violated' if violations else 'held-on-explored'
    os.makedirs(os.path.join(OUT, 'evidence'), exist_ok=True)
    with open(os.path.join(OUT, 'evidence', '%s.json' % mod.ID), 'w') as fh:
        fh.write(dumps(evidence, indent=1))

    for ln in lines:
        print(ln)
    print('%s tier=%s seed=%s evaluations=%d distinct_nontrivial=%d signatures=%d inconclusive=%d '
          'violations=%d wall=%.1fs' % (mod.ID, tier, seed, evaluations, distinct_nt, len(sigs),
                                        len(inconclusive), violations, wall))
    if deciding:
        print('  deciding points: %s' % dumps(deciding))
    if violations:
        return EXIT_VIOLATION
    if reasons:
        print('INCONCLUSIVE property=%s reason=%s' % (mod.ID, ' | '.join(reasons)))
        return EXIT_INCONCLUSIVE
    return EXIT_HELD


def replay_main(path):
    import logging
    logging.disable(logging.CRITICAL)
    with open(path) as fh:
        rp = json.load(fh)
    mod = load_check(rp['property'])
    res = run_one(mod, rp['gen'], rp['idx'], rp['seed'], rp['tier'])
    print(dumps({'case': res.get('sample'), 'witnesses': res['witnesses'], 'trace': res.get('trace')}, indent=1))
    bad = [w for w in res['witnesses']]
    return EXIT_VIOLATION if bad else EXIT_HELD
