"""E-script engine: one real endpoint against the raw peer, driven through a *history*:
a sequence of protocol-legal peer frames, local application actions and connection
events, enumerated exhaustively up to a depth and executed under several spacings."""
import asyncio

from . import vloop
from .apps import RecSubscriber, make_payload, pkey, pbrief, MAX_N, DIR_REQUEST, DIR_RESPONSE, DIR_CHANNEL_UP
from .rawpeer import RawWorld
from reactivestreams.publisher import Publisher
from reactivestreams.subscription import Subscription

MODELS = ('rr', 'stream', 'channel')
ROLES = ('requester', 'responder')      # role of the REAL endpoint in the interaction
ENDPOINTS = ('c', 's')                  # the real endpoint is a client or a server
SPACINGS = ('settle', 'b2b', 'ticks')

CONN = ('c:close', 'c:eof', 'c:error')


def scenarios():
    return [(m, r, e) for m in MODELS for r in ROLES for e in ENDPOINTS]


class ManualPublisher(Publisher, Subscription):
    """A publisher driven step by step by the history."""

    def __init__(self, world, iid, direction, who):
        self.world = world
        self.iid = iid
        self.direction = direction
        self.who = who
        self.subscriber = None
        self.credit = 0
        self.seq = 0
        self.terminated = False
        self.cancelled = False
        self.cancel_calls = 0
        self.requests = []
        self.emitted = []
        self.emitted_after_cancel = 0
        self.how = None

    def subscribe(self, subscriber):
        self.subscriber = subscriber
        self.world.log('pub', who=self.who, iid=self.iid, dir=self.direction, ev='subscribed')
        subscriber.on_subscribe(self)

    def request(self, n):
        self.requests.append(n)
        self.credit = min(MAX_N, self.credit + n)
        self.world.log('pub', who=self.who, iid=self.iid, dir=self.direction, ev='request', n=n)

    def cancel(self):
        self.cancel_calls += 1
        self.cancelled = True
        self.world.log('pub', who=self.who, iid=self.iid, dir=self.direction, ev='cancel')

    def can_emit(self):
        return self.subscriber is not None and not self.terminated and not self.cancelled

    def emit_next(self, complete=False):
        if not self.can_emit() or self.credit <= 0:
            return False
        self.credit -= 1
        p = make_payload(self.iid, self.direction, self.seq, 5 + self.seq, 0)
        self.seq += 1
        self.emitted.append(pkey(p))
        if complete:
            self.terminated = True
            self.how = 'flag'
        self.world.log('emit', who=self.who, iid=self.iid, dir=self.direction, seq=self.seq - 1, complete=complete)
        self.subscriber.on_next(p, is_complete=complete)
        return True

    def emit_complete(self):
        if not self.can_emit():
            return False
        self.terminated = True
        self.how = 'complete'
        self.world.log('emit_terminal', who=self.who, iid=self.iid, dir=self.direction, ev='complete')
        self.subscriber.on_complete()
        return True

    def emit_error(self):
        if not self.can_emit():
            return False
        self.terminated = True
        self.how = 'error'
        self.world.log('emit_terminal', who=self.who, iid=self.iid, dir=self.direction, ev='error')
        self.subscriber.on_error(RuntimeError('app-error'))
        return True


# ---------------------------------------------------------------------------
# abstract enumeration of legal histories


class _Abs:
    """Abstract state used only to decide which steps are enabled (legal for the peer / sensible for the app)."""

    __slots__ = ('model', 'role', 'peer_send_open', 'peer_dead', 'local_pub_open', 'local_pub_credit', 'local_cancelled',
                 'local_late', 'fut_done', 'conn_dead', 'peer_cancelled', 'sub_cancelled', 'peer_got_terminal', 'counts',
                 'peer_in_run')

    def __init__(self, model, role):
        self.model = model
        self.role = role
        self.peer_send_open = True      # peer may still send PAYLOAD elements / terminal
        self.peer_dead = False          # peer has sent ERROR or (requester peer) CANCEL: it sends nothing further
        self.local_pub_open = True
        self.local_pub_credit = 1 if role == 'responder' else 0   # initial n of the peer's request is 1
        self.local_cancelled = False
        self.local_late = 0
        self.fut_done = False
        self.conn_dead = False
        self.peer_cancelled = False
        self.sub_cancelled = False
        self.peer_got_terminal = False
        self.peer_in_run = False        # the peer has sent the first fragment of an element and not yet the last
        self.counts = {}

    def copy(self):
        c = _Abs.__new__(_Abs)
        for k in _Abs.__slots__:
            setattr(c, k, getattr(self, k))
        c.counts = dict(self.counts)
        return c


def _enabled(a):
    if a.conn_dead:
        # one late local action after the connection ended
        out = []
        if a.local_late < 1:
            if a.role == 'requester':
                out += ['l:cancel'] if a.model != 'rr' else ['l:fut_cancel']
                if a.model != 'rr':
                    out += ['l:req1']
        return out
    out = []
    m, r = a.model, a.role
    peer_has_elements = (r == 'requester') or m == 'channel'
    # ---- peer frames
    if not a.peer_dead and a.peer_in_run:
        # inside a fragment run the peer may only send the rest of that frame on this stream
        out += ['p:frag_end']
    elif not a.peer_dead:
        if r == 'requester':
            # peer is the responder
            if a.peer_send_open:
                if m == 'rr':
                    # a response PAYLOAD with NEXT but without COMPLETE is legal: for request-response NEXT implies it
                    out += ['p:next_complete', 'p:complete', 'p:error', 'p:next', 'p:frag']
                else:
                    out += ['p:next', 'p:next_complete', 'p:complete', 'p:error', 'p:frag']
            elif m == 'channel':
                out += ['p:error']
            if m == 'channel':
                out += ['p:req1', 'p:reqmax']
                if not a.peer_cancelled:
                    out += ['p:cancel']
        else:
            # peer is the requester
            if m == 'rr':
                out += ['p:cancel']
            elif m == 'stream':
                out += ['p:req1', 'p:reqmax', 'p:cancel']
            else:
                if a.peer_send_open:
                    out += ['p:next', 'p:next_complete', 'p:complete', 'p:frag']
                out += ['p:error', 'p:req1', 'p:reqmax', 'p:cancel']
    # ---- local application actions
    if r == 'requester':
        if m == 'rr':
            out += ['l:fut_cancel']
        else:
            out += ['l:req1', 'l:cancel']
        if m == 'channel' and a.local_pub_open:
            if a.local_pub_credit > 0:
                out += ['l:pub_next', 'l:pub_next_complete']
            out += ['l:pub_complete', 'l:pub_error']
    else:
        if m == 'rr':
            if not a.fut_done:
                out += ['l:fut_result', 'l:fut_exception', 'l:fut_cancel']
        else:
            if a.local_pub_open:
                if a.local_pub_credit > 0:
                    out += ['l:pub_next', 'l:pub_next_complete']
                out += ['l:pub_complete', 'l:pub_error']
            if m == 'channel':
                out += ['l:sub_req1', 'l:sub_cancel']
    out += list(CONN)
    return [s for s in out if a.counts.get(s, 0) < 2]


def _apply(a, s):
    a = a.copy()
    a.counts[s] = a.counts.get(s, 0) + 1
    m, r = a.model, a.role
    if s in CONN:
        a.conn_dead = True
    elif a.conn_dead:
        a.local_late += 1
    elif s == 'p:frag':
        a.peer_in_run = True
    elif s == 'p:frag_end':
        a.peer_in_run = False
        if m == 'rr' and r == 'requester':
            a.peer_send_open = False
            a.peer_dead = True
    elif s == 'p:next' and m == 'rr' and r == 'requester':
        a.peer_send_open = False
        a.peer_dead = True
    elif s in ('p:next_complete', 'p:complete'):
        a.peer_send_open = False
        if m in ('rr', 'stream') and r == 'requester':
            a.peer_dead = True
    elif s == 'p:error':
        a.peer_dead = True
        a.peer_send_open = False
    elif s == 'p:cancel':
        a.peer_cancelled = True
        if r == 'responder':
            a.peer_dead = True          # a requester's CANCEL ends the interaction for the peer
            a.local_pub_open = False    # the library cancels the local publisher
        else:
            a.local_pub_open = False
    elif s == 'p:req1':
        a.local_pub_credit += 1
    elif s == 'p:reqmax':
        a.local_pub_credit += 1000
    elif s in ('l:pub_next',):
        a.local_pub_credit -= 1
    elif s in ('l:pub_next_complete',):
        a.local_pub_credit -= 1
        a.local_pub_open = False
    elif s in ('l:pub_complete', 'l:pub_error'):
        a.local_pub_open = False
        if s == 'l:pub_error':
            a.peer_dead = a.peer_dead     # the peer learns of it later; crossing frames stay legal
    elif s in ('l:fut_result', 'l:fut_exception', 'l:fut_cancel'):
        a.fut_done = True
    elif s == 'l:cancel':
        a.local_cancelled = True
        a.local_pub_open = a.local_pub_open
    return a


def enumerate_histories(model, role, depth):
    """All step sequences of length 1..depth (prefix-closed set, each listed once)."""
    out = []

    def rec(a, hist):
        if hist:
            out.append(tuple(hist))
        if len(hist) >= depth:
            return
        for s in _enabled(a):
            rec(_apply(a, s), hist + [s])

    rec(_Abs(model, role), [])
    return out


# ---------------------------------------------------------------------------
# execution


class Result:
    pass


SID_BY = {'c': 1, 's': 2}    # first stream id opened by a client / server requester


async def _execute(model, role, endpoint, history, spacing, rng, link_kind, frag=None, knobs=None, probe=None):
    from rsocket.payload import Payload
    rw = RawWorld(rng, endpoint, link_kind=link_kind, frag=frag, knobs=knobs)
    world = rw.world
    res = Result()
    res.rw = rw
    res.world = world
    res.model, res.role, res.endpoint, res.history, res.spacing = model, role, endpoint, history, spacing
    res.skipped = []
    res.sub = None            # RecSubscriber receiving the response direction (real requester)
    res.up_sub = None         # responder-side channel subscriber (real responder)
    res.pub = None            # ManualPublisher of the real endpoint's application
    res.future = None         # library future handed to the application (real requester, rr)
    res.resp_future = None    # application's future handed to the library (real responder, rr)
    iid = 1
    world.specs[iid] = {'iid': iid, 'model': model, 'side': endpoint if role == 'requester' else rw.raw_side}
    world.inter[iid] = {}
    peer = None

    class H:
        """Handler hooks for the real responder."""

        def __init__(self):
            pass

        async def handler_entry(self, handler, iid_, model_):
            return None

        def make_response(self, handler, iid_):
            f = vloop.RecFuture(loop=asyncio.get_event_loop())
            res.resp_future = f
            f.add_done_callback(lambda fu: world.log('resp_future_done', who='app', iid=1,
                                                     how='cancelled' if fu.cancelled() else 'set'))
            return f

        def make_stream(self, handler, iid_):
            res.pub = ManualPublisher(world, 1, DIR_RESPONSE, 'responder-pub')
            return res.pub

        def make_channel(self, handler, iid_):
            res.pub = ManualPublisher(world, 1, DIR_RESPONSE, 'responder-pub')
            res.up_sub = RecSubscriber(world, 1, DIR_CHANNEL_UP, 'responder-sub', policy=('never',),
                                       request_on_subscribe=1)
            return res.pub, res.up_sub

    rw.driver.handler_entry = H().handler_entry
    rw.driver.make_response = H().make_response
    rw.driver.make_stream = H().make_stream
    rw.driver.make_channel = H().make_channel
    await rw.start()
    peer = rw.peer
    ep = rw.ep
    if endpoint == 'c':
        await peer.wait_for(lambda f: f.get('type') == 'SETUP', 5.0)
    else:
        await asyncio.sleep(0.5)
    req_payload = make_payload(iid, DIR_REQUEST, 0, 16, 0)
    world.inter[iid]['request'] = pkey(req_payload)
    # ---- step 0: start the interaction
    if role == 'requester':
        sid = SID_BY[endpoint]
        if model == 'rr':
            res.future = ep.request_response(req_payload)
            res.future.add_done_callback(lambda f: world.log('future_done', who='app', iid=1,
                                                             how='cancelled' if f.cancelled() else
                                                             ('exception' if f.exception() else 'result')))
        else:
            res.sub = RecSubscriber(world, iid, DIR_RESPONSE, 'requester-sub', policy=('never',), initial_granted=1)
            if model == 'stream':
                handle = ep.request_stream(req_payload)
            else:
                res.pub = ManualPublisher(world, iid, DIR_CHANNEL_UP, 'requester-pub')
                handle = ep.request_channel(req_payload, res.pub)
            handle.initial_request_n(1).subscribe(res.sub)
        await asyncio.sleep(0.2)
    else:
        sid = SID_BY[rw.raw_side]
        t = {'rr': 'REQUEST_RESPONSE', 'stream': 'REQUEST_STREAM', 'channel': 'REQUEST_CHANNEL'}[model]
        f = {'type': t, 'sid': sid, 'data': req_payload.data, 'metadata': None}
        if model != 'rr':
            f['n'] = 1
        peer.send(f)
        await asyncio.sleep(0.2)
    res.sid = sid
    res.start_events = len(world.events)
    peer_seq = [0]

    def peer_payload(next_=True, complete=False):
        d = b''
        if next_:
            d = b'peer-element-%d' % peer_seq[0]
            peer_seq[0] += 1
        return {'type': 'PAYLOAD', 'sid': sid, 'next': next_, 'complete': complete, 'data': d, 'metadata': None}

    res.peer_elements = []
    frag_state = {}

    async def do(step):
        kind, name = step.split(':')
        if kind == 'p':
            if name == 'next':
                f = peer_payload(True, False)
            elif name == 'next_complete':
                f = peer_payload(True, True)
            elif name == 'complete':
                f = peer_payload(False, True)
            elif name == 'frag':
                f = peer_payload(True, False)
                f['follows'] = True
                frag_state['first'] = f['data']
            elif name == 'frag_end':
                f = {'type': 'PAYLOAD', 'sid': sid, 'next': True, 'complete': False, 'data': b'-rest', 'metadata': None}
            elif name == 'error':
                # error data is arbitrary bytes on the wire, not necessarily text
                f = {'type': 'ERROR', 'sid': sid, 'code': rng.choice([0x201, 0x201, 0x202]),
                     'data': rng.choice([b'peer-error', b'peer-error', b'', b'\xff\xfe\x80 binary error data'])}
            elif name == 'req1':
                f = {'type': 'REQUEST_N', 'sid': sid, 'n': 1}
            elif name == 'reqmax':
                f = {'type': 'REQUEST_N', 'sid': sid, 'n': MAX_N}
            elif name == 'cancel':
                f = {'type': 'CANCEL', 'sid': sid}
            if name == 'frag_end':
                res.peer_elements.append((frag_state.pop('first', b'') + f['data'], b''))
            elif f['type'] == 'PAYLOAD' and f['next'] and not f.get('follows'):
                res.peer_elements.append((f['data'], b''))
            world.log('peer_send', step=step)
            peer.send(f)
        elif kind == 'l':
            world.log('local', step=step)
            ok = True
            if name == 'fut_cancel':
                fut = res.future if role == 'requester' else res.resp_future
                if fut is None:
                    ok = False
                else:
                    fut.cancel()
            elif name == 'fut_result':
                if res.resp_future is None or res.resp_future.done():
                    ok = False
                else:
                    res.resp_future.set_result(Payload(b'app-response', None))
            elif name == 'fut_exception':
                if res.resp_future is None or res.resp_future.done():
                    ok = False
                else:
                    res.resp_future.set_exception(RuntimeError('app-error'))
            elif name == 'req1':
                if res.sub is None or res.sub.subscription is None:
                    ok = False
                else:
                    res.sub._request(1)
            elif name == 'cancel':
                if res.sub is None or res.sub.subscription is None:
                    ok = False
                else:
                    res.sub.do_cancel()
            elif name == 'sub_req1':
                if res.up_sub is None or res.up_sub.subscription is None:
                    ok = False
                else:
                    res.up_sub._request(1)
            elif name == 'sub_cancel':
                if res.up_sub is None or res.up_sub.subscription is None:
                    ok = False
                else:
                    res.up_sub.do_cancel()
            elif name.startswith('pub_'):
                if res.pub is None:
                    ok = False
                elif name == 'pub_next':
                    ok = res.pub.emit_next(False)
                elif name == 'pub_next_complete':
                    ok = res.pub.emit_next(True)
                elif name == 'pub_complete':
                    ok = res.pub.emit_complete()
                elif name == 'pub_error':
                    ok = res.pub.emit_error()
            if not ok:
                res.skipped.append(step)
        else:
            world.log('conn', step=step)
            if name == 'close':
                await ep.close()
            elif name == 'eof':
                peer.close('eof')
            else:
                peer.close('error')

    res.executed = []
    for i, step in enumerate(history):
        nskipped = len(res.skipped)
        await do(step)
        if len(res.skipped) == nskipped:
            res.executed.append(step)
        if spacing == 'settle':
            await asyncio.sleep(1.0)
        elif spacing == 'ticks':
            await asyncio.sleep(0)
            if i % 2:
                await asyncio.sleep(0)
    await asyncio.sleep(5.0)
    res.quiescent_events = len(world.events)
    # observations that need the live endpoint
    try:
        res.open_streams = sorted(ep._stream_control._streams.keys())
        res.partial_frames = sorted(ep._frame_fragment_cache._frames_by_stream_id.keys())
    except AttributeError:
        res.open_streams = res.partial_frames = None
    res.real_sent = rw.real_sent()
    res.close_calls = rw.handler.close_calls
    if probe is not None:
        res.probe = await probe(res)
    await rw.close()
    return res


def execute(model, role, endpoint, history, spacing, rng, link_kind='bytes', **kw):
    return vloop.run(_execute(model, role, endpoint, tuple(history), spacing, rng, link_kind, **kw))
