"""Seeded generators of frame dicts and of (valid and malformed) wire records."""
import math

from . import minicodec

SMALL_TYPES = ['SETUP', 'LEASE', 'KEEPALIVE', 'REQUEST_RESPONSE', 'REQUEST_FNF', 'REQUEST_STREAM', 'REQUEST_CHANNEL',
               'REQUEST_N', 'CANCEL', 'PAYLOAD', 'ERROR', 'METADATA_PUSH', 'RESUME', 'RESUME_OK']
CODES = [0x001, 0x002, 0x003, 0x004, 0x101, 0x102, 0x201, 0x202, 0x203, 0x204, 0xFFFFFFFF]


def loglen(rng, hi):
    return int(math.exp(rng.random() * math.log(hi + 1))) - 1


def rbytes(rng, n):
    return rng.randbytes(n) if n else b''


def random_frame(rng, max_len=300):
    """A well-formed frame dict (minicodec form) of a random type with small payloads."""
    t = rng.choice(SMALL_TYPES)
    sid = 0 if t in ('SETUP', 'LEASE', 'KEEPALIVE', 'METADATA_PUSH', 'RESUME', 'RESUME_OK') else rng.randrange(1, 2 ** 31)
    if rng.random() < 0.3 and sid:
        sid = rng.randrange(1, 20)
    f = {'type': t, 'sid': sid}
    md = rbytes(rng, loglen(rng, max_len)) if rng.random() < 0.6 else None
    data = rbytes(rng, loglen(rng, max_len))
    if t == 'SETUP':
        f.update(keepalive_ms=rng.randrange(0, 2 ** 31), lifetime_ms=rng.randrange(0, 2 ** 31), lease=rng.random() < 0.3,
                 resume=rng.random() < 0.3, metadata_mime=rbytes(rng, rng.choice([0, 1, 39, 126, 127, rng.randrange(0, 128)])),
                 data_mime=rbytes(rng, rng.choice([0, 1, 39, 126, 127, rng.randrange(0, 128)])), metadata=md, data=data)
        if f['resume']:
            f['token'] = rbytes(rng, rng.randrange(0, 40))
    elif t == 'LEASE':
        f.update(ttl_ms=rng.randrange(0, 2 ** 31), requests=rng.randrange(0, 2 ** 31), metadata=md)
    elif t == 'KEEPALIVE':
        f.update(respond=rng.random() < 0.5, position=rng.randrange(0, 2 ** 63), data=data)
    elif t in ('REQUEST_RESPONSE', 'REQUEST_FNF'):
        f.update(follows=rng.random() < 0.2, metadata=md, data=data)
    elif t in ('REQUEST_STREAM', 'REQUEST_CHANNEL'):
        f.update(follows=rng.random() < 0.2, n=rng.randrange(1, 2 ** 31), metadata=md, data=data)
        if t == 'REQUEST_CHANNEL':
            f['complete'] = rng.random() < 0.3
    elif t == 'REQUEST_N':
        f.update(n=rng.randrange(1, 2 ** 31))
    elif t == 'PAYLOAD':
        f.update(follows=rng.random() < 0.2, complete=rng.random() < 0.4, metadata=md, data=data)
        f['next'] = bool(md or data) or rng.random() < 0.5
    elif t == 'ERROR':
        f.update(code=rng.choice(CODES), data=data)
    elif t == 'METADATA_PUSH':
        f.update(metadata=rbytes(rng, 1 + loglen(rng, max_len)))
    elif t == 'RESUME':
        f.update(token=rbytes(rng, rng.randrange(0, 40)), last_server_position=rng.randrange(0, 2 ** 63),
                 first_client_position=rng.randrange(0, 2 ** 63))
    elif t == 'RESUME_OK':
        f.update(position=rng.randrange(0, 2 ** 63))
    if f.get('metadata') == b'':
        f['metadata'] = None
    return f


RECORD_KINDS = ['valid', 'valid', 'valid', 'valid', 'truncated', 'junk', 'unknown-type', 'zero-length', 'short',
                'ignore-junk', 'bad-error-code', 'md-length-overrun']


def random_record(rng, kinds=RECORD_KINDS, max_len=300):
    """Returns (kind, body bytes).  Body is the record without its 3-byte length prefix."""
    k = rng.choice(kinds)
    if k == 'valid':
        return k, minicodec.encode(random_frame(rng, max_len))
    if k == 'truncated':
        body = minicodec.encode(random_frame(rng, max_len))
        cut = rng.randrange(0, len(body))
        return k, body[:cut]
    if k == 'junk':
        return k, rbytes(rng, rng.randrange(6, 60))
    if k == 'unknown-type':
        tid = rng.choice([0, 15, 16, 31, 40, 62, 63])
        f = {'type': 'X', 'type_id': tid, 'sid': rng.randrange(0, 50), 'data': rbytes(rng, rng.randrange(0, 30))}
        return k, minicodec.encode(f)
    if k == 'zero-length':
        return k, b''
    if k == 'short':
        return k, rbytes(rng, rng.randrange(1, 6))
    if k == 'ignore-junk':
        tid = rng.choice([1, 2, 3, 11, 13, 14, 8])
        f = {'type': 'X', 'type_id': tid, 'sid': rng.randrange(0, 50), 'ignore': True,
             'data': rbytes(rng, rng.randrange(0, 3))}
        return k, minicodec.encode(f)
    if k == 'bad-error-code':
        f = {'type': 'ERROR', 'sid': rng.randrange(0, 50), 'code': rng.choice([0, 5, 0x100, 0x300, 0xFFFFFFFE]),
             'data': rbytes(rng, rng.randrange(0, 30))}
        return k, minicodec.encode(f)
    if k == 'md-length-overrun':
        body = bytearray(minicodec.encode({'type': 'PAYLOAD', 'sid': rng.randrange(1, 50), 'next': True,
                                           'metadata': rbytes(rng, rng.randrange(1, 20)),
                                           'data': rbytes(rng, rng.randrange(0, 20))}))
        body[6:9] = (len(body) + rng.randrange(1, 1000)).to_bytes(3, 'big')
        return k, bytes(body)
    raise KeyError(k)


def to_stream(bodies):
    return b''.join(minicodec.with_length(b) for b in bodies)
