"""Seeded generation of E-mix cases: link configuration + interaction specs."""
from . import links
from .apps import MAX_N, HEADER_LEN

MODELS = ('rr', 'fnf', 'stream', 'channel', 'push')


def size_classes(frag):
    f = frag or 64
    return [0, 1, 2, 7, 8, 9, f - 20, f - 13, f - 10, f - 9, f - 6, f - 3, f, f + 1, 2 * f, 2 * f + 5, 5 * f]


def draw_size(rng, frag, big=0.03, many=0.08):
    x = rng.random()
    f = frag or 64
    if x < big:
        return rng.choice([65535, 65536, 70000])
    if x < big + many:
        return rng.randrange(10 * f, 40 * f)
    v = rng.choice(size_classes(frag))
    return max(0, v)


def draw_payload_size(rng, frag, request=False, **kw):
    shape = rng.random()
    if shape < 0.35:
        dl, ml = draw_size(rng, frag, **kw), 0
    elif shape < 0.5:
        dl, ml = 0, draw_size(rng, frag, **kw)
    else:
        dl, ml = draw_size(rng, frag, **kw), draw_size(rng, frag, **kw)
    if dl > 20000 and ml > 20000:
        ml = ml % 300
    if request and dl < HEADER_LEN and ml < HEADER_LEN:
        if rng.random() < 0.5:
            dl = HEADER_LEN + dl
        else:
            ml = HEADER_LEN + ml
    return (dl, ml)


def draw_pacing(rng, timed=True):
    x = rng.random()
    if x < 0.35:
        return ('sync',)
    if x < 0.6:
        return ('tick',)
    if x < 0.85 or not timed:
        return ('burst', rng.choice([2, 3, 6]))
    return ('timed', rng.choice([1e-4, 1e-3, 0.01]))


def draw_wait(rng, timed=True):
    x = rng.random()
    if x < 0.4:
        return ('none',)
    if x < 0.8 or not timed:
        return ('ticks', rng.randrange(1, 6))
    return ('virtual', rng.choice([1e-5, 1e-3, 0.02]))


def draw_credit(rng, count):
    """(n0, policy) that always lets `count` elements through eventually."""
    x = rng.random()
    if x < 0.25:
        return MAX_N, ('refill', MAX_N, 0)
    if x < 0.33:
        return rng.choice([1, 2]), ('burst', tuple(rng.choice([1, 2, 3]) for _ in range(rng.choice([2, 3, 4]))), 0)
    if x < 0.4:
        return max(1, count + rng.choice([-1, 0, 1])), ('refill', rng.choice([1, 2, 5]), 0)
    if x < 0.8:
        n0 = rng.choice([1, 2, 3])
        return n0, ('refill', rng.choice([1, 2, 3, 7]), rng.choice([0, 0, 1]) if n0 > 1 else 0)
    n0 = rng.choice([1, 2, 5])
    return n0, ('late', rng.choice([1, 2, 4]), 0, draw_wait(rng))


def draw_stream_cfg(rng, frag, sources=('rec',), max_elems=8, terminals=('complete', 'flag', 'complete'),
                    timed=True, **kw):
    n = rng.choice([0, 1, 1, 2, 3, 5, max_elems])
    elems = []
    while len(elems) < n:
        e = draw_payload_size(rng, frag, **kw)
        if e != (0, 0):        # an empty payload is the library's 'no element' (excluded by C01)
            elems.append(e)
    return {'elems': elems, 'terminal': rng.choice(terminals), 'pacing': draw_pacing(rng, timed),
            'source': rng.choice(sources), 'handler_delay': draw_wait(rng, timed)}


# 'aiohttp', 'quart' (asyncwebsockets client, quart server) and 'channels' run the repository's transport glue over
# scripted sockets (rv/gluelinks.py)
WITH_WS = ('bytes', 'bytes', 'bytes', 'messages', 'messages', 'ws', 'aiohttp', 'quart', 'channels')


def draw_config(rng, links_allowed=('bytes', 'messages'),
                frags=(None, 64, 65, 70, 100, 1024), timed=True):
    link = rng.choice(links_allowed)
    cfg = {'link': link,
           'frag_c': rng.choice(frags), 'frag_s': rng.choice(frags),
           'knobs_c': links.Knobs.draw(rng, timed), 'knobs_s': links.Knobs.draw(rng, timed)}
    return cfg


def describe_cfg(cfg):
    d = {'link': cfg['link'], 'frag_c': cfg['frag_c'], 'frag_s': cfg['frag_s'],
         'knobs_c': cfg['knobs_c'].describe(), 'knobs_s': cfg['knobs_s'].describe()}
    if cfg.get('lease'):
        d['lease'] = [list(x) for x in cfg['lease']]
    if cfg.get('exc_kind'):
        d['application_exception_type'] = cfg['exc_kind']
    return d


def draw_leases(rng):
    """(wait, count, ttl_ms) leases published by the server; the last one never runs out, so that every request
    retained by a lease-honouring client is eventually released."""
    out = [(rng.choice([0.0, 0.2, 1.0]), rng.choice([0, 1, 2, 3]), rng.choice([50, 1000, 10000]))
           for _ in range(rng.choice([0, 1, 2, 4]))]
    return out + [(rng.choice([0.0, 0.2, 1.5]), MAX_N, MAX_N)]


def draw_spec(rng, iid, cfg, side=None, model=None, sources=('rec', 'rec', 'gen', 'agen'), timed=True,
              terminals=('complete', 'flag', 'complete'), max_elems=8, **kw):
    side = side or rng.choice('cs')
    other = 's' if side == 'c' else 'c'
    model = model or rng.choice(MODELS)
    frag_req = cfg['frag_' + side]       # fragmentation applied by the sender of each payload
    frag_resp = cfg['frag_' + other]
    spec = {'iid': iid, 'side': side, 'model': model, 'start': draw_wait(rng, timed)}
    if model == 'push':
        spec['req'] = (0, HEADER_LEN + draw_size(rng, frag_req, **kw))
        return spec
    spec['req'] = draw_payload_size(rng, frag_req, request=True, **kw)
    if model == 'fnf':
        return spec
    if model == 'rr':
        size = draw_payload_size(rng, frag_resp, **kw)
        spec['resp'] = {'size': size, 'outcome': 'ok', 'delay': draw_wait(rng, timed),
                        'handler_delay': draw_wait(rng, timed)}
        return spec
    resp = draw_stream_cfg(rng, frag_resp, sources, max_elems, terminals, timed, **kw)
    spec['resp'] = resp
    spec['n0'], spec['policy'] = draw_credit(rng, len(resp['elems']))
    if model == 'channel':
        if rng.random() < 0.8:
            up = draw_stream_cfg(rng, frag_req, sources, max_elems, terminals, timed, **kw)
            del up['handler_delay']
            spec['up'] = up
            n0, pol = draw_credit(rng, len(up['elems']))
            resp['up_n0'], resp['up_policy'] = n0, pol
        else:
            spec['up'] = None
    return spec


def make_hostile(rng, spec, timed=True, failures=False):
    """Adds cancels at random instants (including immediately), application errors, never-answering
    responders, completion racing cancel and late no-op actions to a spec (all protocol-legal)."""
    model = spec['model']
    if model == 'rr':
        x = rng.random()
        if x < 0.3:
            spec['rr_cancel'] = draw_wait(rng, timed)
        elif x < 0.4:
            spec['rr_cancel'] = ('none',)
        y = rng.random()
        if y < 0.25:
            spec['resp']['outcome'] = 'error'
        elif y < 0.35:
            spec['resp']['outcome'] = 'never'
            spec.setdefault('rr_cancel', draw_wait(rng, timed))
        if failures and rng.random() < 0.2:
            spec['resp']['fail'] = rng.choice(['raise-before-await', 'raise-after-await', 'failed-future'])
    elif model in ('stream', 'channel'):
        resp = spec['resp']
        y = rng.random()
        if y < 0.25:
            resp['terminal'] = 'error'
        elif y < 0.35:
            resp['terminal'] = 'never'
        x = rng.random()
        n = len(resp['elems'])
        if x < 0.15:
            spec['cancel_after'] = 0
        elif x < 0.4:
            spec['cancel_after'] = rng.randrange(1, n + 2)
        elif x < 0.55 or resp['terminal'] == 'never':
            spec['cancel_delay'] = draw_wait(rng, timed)
        if rng.random() < 0.3:
            spec['extra_requests'] = [rng.choice([1, 3, MAX_N])]
        if rng.random() < 0.35:
            spec['late_actions'] = [{'do': rng.choice(['request', 'cancel']), 'n': rng.choice([1, 3, MAX_N]),
                                     'wait': draw_wait(rng, timed)} for _ in range(rng.choice([1, 2]))]
        if model == 'channel' and spec.get('up') is not None:
            up = spec['up']
            z = rng.random()
            if z < 0.2:
                up['terminal'] = 'error'
            elif z < 0.3:
                up['terminal'] = 'never'
            if rng.random() < 0.25:
                resp['up_cancel_after'] = rng.randrange(0, len(up['elems']) + 1)
        if model == 'channel' and rng.random() < 0.1:
            resp['publisher'] = False
        if failures and rng.random() < 0.15:
            resp['fail'] = rng.choice(['raise-before-await', 'raise-after-await'])
    return spec
