"""In-memory links between two endpoints.

ByteLink : the repository's real TransportTCP on a real asyncio.StreamReader and a
           MemWriter; a pump moves (and re-chunks, delays, cuts) the bytes.
MsgLink  : a subclass of the repository's AbstractMessagingTransport whose send side
           serialises the frame and whose receive side runs the two lines every
           websocket transport of the repository contains.

Every transport records a *tap* of what its endpoint sent and received, in the order
that endpoint saw it, decoded with the independent mini codec.
"""
import asyncio

from . import libcodec, vloop


class Tap:
    def __init__(self):
        self.events = []          # (virtual time, endpoint, 'send'|'recv', frame dict)
        self.listeners = []

    def rec(self, ep, direction, frame):
        d = libcodec.snapshot(frame)
        ev = (asyncio.get_event_loop().time(), ep, direction, d)
        self.events.append(ev)
        for fn in self.listeners:
            fn(ev)
        return d

    def of(self, ep, direction=None):
        return [e for e in self.events if e[1] == ep and (direction is None or e[2] == direction)]


class Knobs:
    """Perturbation vector of one link direction / endpoint, drawn from the case RNG."""

    def __init__(self, rng=None, **kw):
        self.latency = ('none',)       # ('none',) | ('ticks', k) | ('virtual', seconds) | ('jitter', lo, hi)
        self.chunking = ('whole',)     # ('whole',) | ('fixed', c) | ('random', m)
        self.drain = ('none',)         # ('none',) | ('ticks', k) | ('virtual', s)
        self.read_buffer_size = 1024
        self.connect = ('none',)
        for k, v in kw.items():
            setattr(self, k, v)
        self.rng = rng

    @staticmethod
    def draw(rng, timed=True):
        k = Knobs(rng)
        x = rng.random()
        if x < 0.35:
            k.latency = ('none',)
        elif x < 0.6:
            k.latency = ('ticks', rng.randrange(1, 4))
        elif x < 0.8 and timed:
            k.latency = ('virtual', rng.choice([1e-6, 1e-4, 1e-3, 0.01, 0.05]))
        elif timed:
            k.latency = ('jitter', 0.0, rng.choice([1e-4, 1e-3, 0.02]))
        else:
            k.latency = ('ticks', rng.randrange(1, 4))
        x = rng.random()
        if x < 0.4:
            k.chunking = ('whole',)
        elif x < 0.7:
            k.chunking = ('fixed', rng.choice([1, 2, 3, 5, 7, 64]))
        else:
            k.chunking = ('random', rng.choice([4, 16, 100]))
        x = rng.random()
        if x < 0.5:
            k.drain = ('none',)
        elif x < 0.8:
            k.drain = ('ticks', rng.randrange(1, 4))
        elif timed:
            k.drain = ('virtual', rng.choice([1e-5, 1e-3, 0.01]))
        k.read_buffer_size = rng.choice([1, 2, 3, 16, 1024, 1024, 65536])
        return k

    def describe(self):
        return {'latency': self.latency, 'chunking': self.chunking, 'drain': self.drain,
                'read_buffer_size': self.read_buffer_size, 'connect': self.connect}


async def _wait(spec, rng):
    kind = spec[0]
    if kind == 'none':
        return
    if kind == 'ticks':
        for _ in range(spec[1]):
            await asyncio.sleep(0)
    elif kind == 'virtual':
        await asyncio.sleep(spec[1])
    elif kind == 'jitter':
        await asyncio.sleep(spec[1] + (spec[2] - spec[1]) * rng.random())


class MemWriter:
    """Duck-types the StreamWriter methods TransportTCP uses."""

    def __init__(self, link, side):
        self.link = link
        self.side = side
        self.closed = False
        self.writes = 0

    def write(self, data):
        self.writes += 1
        if self.closed or self.link.broken:
            return
        fail = self.link.write_fail_at.get(self.side)
        if fail is not None and self.writes >= fail:
            self.link.cut('error')
            return
        self.link.pipes[self.side].push(bytes(data))

    async def drain(self):
        if self.link.broken == 'error':
            raise ConnectionResetError('link cut')
        k = self.link.knobs[self.side]
        await _wait(k.drain, k.rng)
        if self.link.broken == 'error':
            raise ConnectionResetError('link cut')

    def is_closing(self):
        return self.closed

    def close(self):
        if not self.closed:
            self.closed = True
            self.link.closed_by(self.side)

    async def wait_closed(self):
        # like asyncio's StreamWriter after connection_lost(exc): the close waiter carries the exception
        if self.link.broken == 'error':
            raise ConnectionResetError('link cut')
        return None


class _Pipe:
    """One direction of a ByteLink."""

    def __init__(self, link, src, dst):
        self.link = link
        self.src = src
        self.dst = dst
        self.buf = bytearray()
        self.wake = asyncio.Event()
        self.delivered = 0
        self.cut_at = None            # cut the link after exactly this many delivered bytes
        self.cut_mode = 'eof'
        self.eof_after_flush = False
        self.task = asyncio.ensure_future(self.run())
        self.chunks_delivered = 0

    def push(self, data):
        self.buf += data
        self.wake.set()

    def _take(self):
        k = self.link.knobs[self.src]
        mode = k.chunking
        n = len(self.buf)
        if mode[0] == 'fixed':
            n = min(n, mode[1])
        elif mode[0] == 'random':
            n = min(n, k.rng.randrange(1, mode[1] + 1))
        if self.cut_at is not None:
            n = min(n, self.cut_at - self.delivered)
        chunk = bytes(self.buf[:n])
        del self.buf[:n]
        return chunk

    async def run(self):
        link = self.link
        k = link.knobs[self.src]
        try:
            while True:
                if self.cut_at is not None and self.delivered >= self.cut_at and not link.broken:
                    link.cut(self.cut_mode)
                    return
                if not self.buf:
                    if self.eof_after_flush:
                        link.readers[self.dst].feed_eof()
                        return
                    self.wake.clear()
                    await self.wake.wait()
                    continue
                await _wait(k.latency, k.rng)
                if link.broken:
                    return
                chunk = self._take()
                if chunk:
                    self.delivered += len(chunk)
                    self.chunks_delivered += 1
                    link.readers[self.dst].feed_data(chunk)
        except asyncio.CancelledError:
            pass


class ByteLink:
    """Two TransportTCP endpoints named 'c' (client side) and 's' (server side)."""

    framing = 'bytes'

    def __init__(self, rng, knobs_c=None, knobs_s=None, tap=None):
        from rsocket.transports.tcp import TransportTCP
        self.rng = rng
        self.tap = tap or Tap()
        self.knobs = {'c': knobs_c or Knobs(rng), 's': knobs_s or Knobs(rng)}
        self.broken = None
        self.write_fail_at = {}
        self.readers = {'c': asyncio.StreamReader(limit=2 ** 26), 's': asyncio.StreamReader(limit=2 ** 26)}
        self.writers = {'c': MemWriter(self, 'c'), 's': MemWriter(self, 's')}
        self.pipes = {'c': _Pipe(self, 'c', 's'), 's': _Pipe(self, 's', 'c')}
        self.transports = {}
        for side in 'cs':
            cls = tapped(TransportTCP, self.tap, side, self)
            self.transports[side] = cls(self.readers[side], self.writers[side],
                                        read_buffer_size=self.knobs[side].read_buffer_size)

    def closed_by(self, side):
        """Orderly close by `side`: peer sees EOF after everything already written; own reader sees EOF."""
        if self.broken:
            return
        other = 's' if side == 'c' else 'c'
        self.pipes[side].eof_after_flush = True
        self.pipes[side].wake.set()
        try:
            self.readers[side].feed_eof()
        except Exception:
            pass
        self.pipes[other].task.cancel()

    def cut(self, mode):
        """The link dies now in both directions: 'eof' (orderly, both readers see EOF) or 'error'."""
        if self.broken:
            return
        self.broken = mode
        for side in 'cs':
            r = self.readers[side]
            if mode == 'eof':
                r.feed_eof()
            else:
                r.set_exception(ConnectionResetError('link cut'))
            self.pipes[side].task.cancel()

    def cut_after(self, side, nbytes, mode):
        """Cut after exactly `nbytes` bytes sent by `side` have been delivered."""
        p = self.pipes[side]
        p.cut_at = nbytes
        p.cut_mode = mode
        p.wake.set()

    def delivered(self, side):
        return self.pipes[side].delivered

    def stop(self):
        for side in 'cs':
            self.pipes[side].task.cancel()


def tapped(base, tap, side, link):
    """Subclass of a repository transport that records the tap and applies the connect() knob."""

    class Tapped(base):
        rv_side = side

        async def connect(self):
            k = link.knobs[side]
            await _wait(k.connect, k.rng)
            return await super().connect()

        async def send_frame(self, frame):
            tap.rec(side, 'send', frame)
            return await super().send_frame(frame)

        async def next_frame_generator(self):
            gen = await super().next_frame_generator()
            if gen is None:
                return None

            async def wrapped():
                async for frame in gen:
                    tap.rec(side, 'recv', frame)
                    yield frame

            return wrapped()

        async def close(self):
            link.close_calls[side] = link.close_calls.get(side, 0) + 1
            return await super().close()

    Tapped.__name__ = 'Tapped' + base.__name__
    return Tapped


class _MsgEnd:
    pass


def _msg_transport_class():
    from rsocket.transports.abstract_messaging import AbstractMessagingTransport
    from rsocket.exceptions import RSocketTransportError

    class MsgTransport(AbstractMessagingTransport):
        """send: frame.serialize() as one message; receive: the lines shared by the repository's
        websocket transports (aiohttp, quart, websockets, channels)."""

        def __init__(self, link, side):
            super().__init__()
            self.link = link
            self.side = side
            self.closed = False

        async def send_frame(self, frame):
            link = self.link
            if link.broken or self.closed:
                raise RSocketTransportError()
            k = link.knobs[self.side]
            msg = frame.serialize()
            link.sent[self.side] += 1
            fail = link.write_fail_at.get(self.side)
            if fail is not None and link.sent[self.side] >= fail:
                link.cut('error')
                raise RSocketTransportError()
            link.queues[self.side].put_nowait(msg)
            await _wait(k.drain, k.rng)

        async def rv_deliver(self, msg):
            async for frame in self._frame_parser.receive_data(msg, 0):
                self._incoming_frame_queue.put_nowait(frame)

        def rv_fail(self):
            self._incoming_frame_queue.put_nowait(RSocketTransportError())

        async def close(self):
            if not self.closed:
                self.closed = True
                self.link.closed_by(self.side)

    return MsgTransport


class MsgLink:
    framing = 'messages'

    def __init__(self, rng, knobs_c=None, knobs_s=None, tap=None):
        self.rng = rng
        self.tap = tap or Tap()
        self.knobs = {'c': knobs_c or Knobs(rng), 's': knobs_s or Knobs(rng)}
        self.broken = None
        self.write_fail_at = {}
        self.close_calls = {}
        self.sent = {'c': 0, 's': 0}
        self.delivered_msgs = {'c': 0, 's': 0}
        self.cut_at = {}
        self.queues = {'c': asyncio.Queue(), 's': asyncio.Queue()}
        base = _msg_transport_class()
        self.transports = {}
        for side in 'cs':
            cls = tapped(base, self.tap, side, self)
            self.transports[side] = cls(self, side)
        self.tasks = {'c': asyncio.ensure_future(self._pump('c', 's')),
                      's': asyncio.ensure_future(self._pump('s', 'c'))}

    async def _pump(self, src, dst):
        k = self.knobs[src]
        try:
            while True:
                if src in self.cut_at and self.delivered_msgs[src] >= self.cut_at[src] and not self.broken:
                    self.cut('error')
                    return
                msg = await self.queues[src].get()
                await _wait(k.latency, k.rng)
                if self.broken:
                    return
                if src in self.cut_at and self.delivered_msgs[src] >= self.cut_at[src]:
                    self.cut('error')
                    return
                self.delivered_msgs[src] += 1
                await self.transports[dst].rv_deliver(msg)
        except asyncio.CancelledError:
            pass

    def closed_by(self, side):
        # a websocket closed by one side: the other side's reader fails
        self.cut('error', spare=side)

    def cut(self, mode='error', spare=None):
        if self.broken:
            return
        self.broken = mode
        for side in 'cs':
            if side != spare:
                self.transports[side].rv_fail()
            self.tasks[side].cancel()

    def cut_after(self, side, nmsgs, mode='error'):
        self.cut_at[side] = nmsgs
        if self.delivered_msgs[side] >= nmsgs:
            self.cut('error')

    def delivered(self, side):
        return self.delivered_msgs[side]

    def stop(self):
        for side in 'cs':
            self.tasks[side].cancel()


# ByteLink needs close_calls too
ByteLink.close_calls = None


class _FakeWebsocket:
    """What WebsocketsTransport.handler() needs from a `websockets` connection: async iteration over incoming
    messages and an async send()."""

    def __init__(self, link, side):
        self.link = link
        self.side = side
        self.inbox = asyncio.Queue()

    def __aiter__(self):
        return self

    async def __anext__(self):
        while True:
            msg = await self.inbox.get()
            if msg is None:
                raise StopAsyncIteration
            if isinstance(msg, tuple):
                # a non-binary websocket message (raw peer only): `websockets` hands a text message to the
                # application as str; ping / pong never reach it
                if msg[0] != 'text':
                    continue
                return msg[1]
            return msg

    async def send(self, msg):
        link = self.link
        k = link.knobs[self.side]
        other = 's' if self.side == 'c' else 'c'
        link.sent[self.side] += 1
        await _wait(k.drain, k.rng)
        if isinstance(msg, str):
            link.queues[self.side].put_nowait(('text', msg))
            return
        if not isinstance(msg, (bytes, bytearray, memoryview)):
            # `websockets` sends an iterable as ONE fragmented message: the peer gets the concatenation
            msg = b''.join(bytes(part) for part in msg)
        link.queues[self.side].put_nowait(bytes(msg))


class WsLink:
    """The repository's real WebsocketsTransport on both sides, each driven by its handler() coroutine over a
    fake websocket; a pump per direction applies the latency knob."""

    framing = 'messages'

    def __init__(self, rng, knobs_c=None, knobs_s=None, tap=None):
        from rsocket.transports.websockets_transport import WebsocketsTransport
        self.rng = rng
        self.tap = tap or Tap()
        self.knobs = {'c': knobs_c or Knobs(rng), 's': knobs_s or Knobs(rng)}
        self.broken = None
        self.write_fail_at = {}
        self.close_calls = {}
        self.sent = {'c': 0, 's': 0}
        self.delivered_msgs = {'c': 0, 's': 0}
        self.queues = {'c': asyncio.Queue(), 's': asyncio.Queue()}
        self.sockets = {'c': _FakeWebsocket(self, 'c'), 's': _FakeWebsocket(self, 's')}
        self.transports = {}
        for side in 'cs':
            cls = tapped(WebsocketsTransport, self.tap, side, self)
            self.transports[side] = cls()
        self.tasks = {}
        for side, other in (('c', 's'), ('s', 'c')):
            self.tasks['pump-' + side] = asyncio.ensure_future(self._pump(side, other))
            self.tasks['handler-' + side] = asyncio.ensure_future(self.transports[side].handler(self.sockets[side]))

    async def _pump(self, src, dst):
        k = self.knobs[src]
        try:
            while True:
                msg = await self.queues[src].get()
                await _wait(k.latency, k.rng)
                self.delivered_msgs[src] += 1
                target = self.transports[dst]
                if hasattr(target, 'rv_deliver') and not hasattr(target, 'send_frame'):
                    if isinstance(msg, bytes):
                        await target.rv_deliver(msg)       # a raw peer sits on this side
                else:
                    self.sockets[dst].inbox.put_nowait(msg)
        except asyncio.CancelledError:
            pass

    def idle(self):
        return all(q.empty() for q in self.queues.values()) and all(s.inbox.empty() for s in self.sockets.values()) \
            and all(t._outgoing_frame_queue.empty() for t in self.transports.values()
                    if hasattr(t, '_outgoing_frame_queue'))

    def delivered(self, side):
        return self.delivered_msgs[side]

    def cut(self, mode='error', spare=None):
        self.broken = mode
        self.stop()

    def closed_by(self, side):
        pass

    def stop(self):
        for t in self.tasks.values():
            t.cancel()


# link kinds for workloads that never cut the link: half of the runs on the repository's websocket transport glue
ANY_LINK = ('bytes', 'messages', 'bytes', 'messages', 'ws', 'aiohttp', 'quart', 'channels')


def make_link(kind, rng, knobs_c=None, knobs_s=None):
    if kind in ('aiohttp', 'quart', 'channels'):
        from .gluelinks import GlueLink
        return GlueLink(kind, rng, knobs_c, knobs_s)
    if kind == 'ws':
        return WsLink(rng, knobs_c, knobs_s)
    if kind == 'bytes':
        link = ByteLink.__new__(ByteLink)
        link.close_calls = {}
        ByteLink.__init__(link, rng, knobs_c, knobs_s)
        return link
    link = MsgLink(rng, knobs_c, knobs_s)
    return link
