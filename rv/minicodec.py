"""Independent encoder/decoder for RSocket 1.0 frames, written from the frame
layout of the protocol specification (not from rsocket/frame.py).  Frames are
plain dicts:

  {'type': 'PAYLOAD', 'sid': 1, 'ignore': False, 'follows': ..., 'complete': ...,
   'next': ..., 'metadata': bytes|None, 'data': bytes, ...type specific...}

`metadata` is None when the M flag is clear, bytes (possibly empty) when set.
"""
import struct

TYPES = {
    1: 'SETUP', 2: 'LEASE', 3: 'KEEPALIVE', 4: 'REQUEST_RESPONSE', 5: 'REQUEST_FNF',
    6: 'REQUEST_STREAM', 7: 'REQUEST_CHANNEL', 8: 'REQUEST_N', 9: 'CANCEL', 10: 'PAYLOAD',
    11: 'ERROR', 12: 'METADATA_PUSH', 13: 'RESUME', 14: 'RESUME_OK', 0x3F: 'EXT',
}
TYPE_IDS = {v: k for k, v in TYPES.items()}

F_IGNORE = 0x200
F_METADATA = 0x100
F_80 = 0x80   # follows / resume / respond
F_40 = 0x40   # complete / lease
F_20 = 0x20   # next

REQUEST_TYPES = ('REQUEST_RESPONSE', 'REQUEST_FNF', 'REQUEST_STREAM', 'REQUEST_CHANNEL')
FRAGMENTABLE = REQUEST_TYPES + ('PAYLOAD',)

ERROR_CODES = {
    0x001: 'INVALID_SETUP', 0x002: 'UNSUPPORTED_SETUP', 0x003: 'REJECTED_SETUP', 0x004: 'REJECTED_RESUME',
    0x101: 'CONNECTION_ERROR', 0x102: 'CONNECTION_CLOSE', 0x201: 'APPLICATION_ERROR', 0x202: 'REJECTED',
    0x203: 'CANCELED', 0x204: 'INVALID', 0xFFFFFFFF: 'RESERVED',
}


class DecodeError(ValueError):
    pass


def _u24(b, off):
    if off + 3 > len(b):
        raise DecodeError('truncated 24-bit length')
    return (b[off] << 16) | (b[off + 1] << 8) | b[off + 2]


def _p24(n):
    if not 0 <= n < (1 << 24):
        raise ValueError('24-bit overflow')
    return bytes(((n >> 16) & 0xFF, (n >> 8) & 0xFF, n & 0xFF))


def _md_and_data(b, off, has_md):
    md = None
    if has_md:
        n = _u24(b, off)
        off += 3
        if off + n > len(b):
            raise DecodeError('metadata length beyond frame')
        md = bytes(b[off:off + n])
        off += n
    return md, bytes(b[off:])


def decode(b):
    """Decode one frame body (no length prefix)."""
    b = bytes(b)
    if len(b) < 6:
        raise DecodeError('short frame')
    sid, tf = struct.unpack_from('>IH', b, 0)
    if sid & 0x80000000:
        raise DecodeError('reserved bit set in stream id')
    tid = tf >> 10
    flags = tf & 0x3FF
    if tid not in TYPES:
        raise DecodeError('unknown type %d' % tid)
    t = TYPES[tid]
    f = {'type': t, 'sid': sid, 'ignore': bool(flags & F_IGNORE), 'mflag': bool(flags & F_METADATA)}
    has_md = f['mflag']
    off = 6
    if t == 'SETUP':
        f['resume'] = bool(flags & F_80)
        f['lease'] = bool(flags & F_40)
        if off + 12 > len(b):
            raise DecodeError('short SETUP')
        f['major'], f['minor'], f['keepalive_ms'], f['lifetime_ms'] = struct.unpack_from('>HHII', b, off)
        off += 12
        if f['resume']:
            (n,) = struct.unpack_from('>H', b, off)
            off += 2
            f['token'] = b[off:off + n]
            off += n
        n = b[off]
        f['metadata_mime'] = b[off + 1:off + 1 + n]
        off += 1 + n
        n = b[off]
        f['data_mime'] = b[off + 1:off + 1 + n]
        off += 1 + n
        f['metadata'], f['data'] = _md_and_data(b, off, has_md)
    elif t == 'LEASE':
        if off + 8 > len(b):
            raise DecodeError('short LEASE')
        ttl, n = struct.unpack_from('>II', b, off)
        f['ttl_ms'], f['requests'] = ttl & 0x7FFFFFFF, n & 0x7FFFFFFF
        off += 8
        f['metadata'] = b[off:] if has_md else None
        f['data'] = b''
    elif t == 'KEEPALIVE':
        f['respond'] = bool(flags & F_80)
        if off + 8 > len(b):
            raise DecodeError('short KEEPALIVE')
        (p,) = struct.unpack_from('>Q', b, off)
        f['position'] = p & 0x7FFFFFFFFFFFFFFF
        off += 8
        f['metadata'] = None
        f['data'] = b[off:]
    elif t in ('REQUEST_RESPONSE', 'REQUEST_FNF'):
        f['follows'] = bool(flags & F_80)
        f['metadata'], f['data'] = _md_and_data(b, off, has_md)
    elif t in ('REQUEST_STREAM', 'REQUEST_CHANNEL'):
        f['follows'] = bool(flags & F_80)
        if t == 'REQUEST_CHANNEL':
            f['complete'] = bool(flags & F_40)
        if off + 4 > len(b):
            raise DecodeError('short request')
        (f['n'],) = struct.unpack_from('>I', b, off)
        off += 4
        f['metadata'], f['data'] = _md_and_data(b, off, has_md)
    elif t == 'REQUEST_N':
        if off + 4 > len(b):
            raise DecodeError('short REQUEST_N')
        (f['n'],) = struct.unpack_from('>I', b, off)
        f['metadata'], f['data'] = None, b''
    elif t == 'CANCEL':
        f['metadata'], f['data'] = None, b''
    elif t == 'PAYLOAD':
        f['follows'] = bool(flags & F_80)
        f['complete'] = bool(flags & F_40)
        f['next'] = bool(flags & F_20)
        f['metadata'], f['data'] = _md_and_data(b, off, has_md)
    elif t == 'ERROR':
        if off + 4 > len(b):
            raise DecodeError('short ERROR')
        (f['code'],) = struct.unpack_from('>I', b, off)
        off += 4
        f['metadata'], f['data'] = None, b[off:]
    elif t == 'METADATA_PUSH':
        f['metadata'] = b[off:]
        f['data'] = b''
    elif t == 'RESUME':
        f['major'], f['minor'], n = struct.unpack_from('>HHH', b, off)
        off += 6
        f['token'] = b[off:off + n]
        off += n
        p1, p2 = struct.unpack_from('>QQ', b, off)
        f['last_server_position'] = p1 & 0x7FFFFFFFFFFFFFFF
        f['first_client_position'] = p2 & 0x7FFFFFFFFFFFFFFF
        f['metadata'], f['data'] = None, b''
    elif t == 'RESUME_OK':
        (p,) = struct.unpack_from('>Q', b, off)
        f['position'] = p & 0x7FFFFFFFFFFFFFFF
        f['metadata'], f['data'] = None, b''
    else:
        f['metadata'], f['data'] = None, b[off:]
    return f


def encode(f):
    """Encode a frame dict (no length prefix).  Does not validate protocol rules, so
    hostile frames can be produced."""
    t = f['type']
    flags = 0
    if f.get('ignore'):
        flags |= F_IGNORE
    md = f.get('metadata')
    data = f.get('data') or b''
    has_md = md is not None if 'mflag' not in f else f['mflag']
    if has_md:
        flags |= F_METADATA
    body = b''
    tail_md_len = True
    if t == 'SETUP':
        if f.get('resume'):
            flags |= F_80
        if f.get('lease'):
            flags |= F_40
        body = struct.pack('>HHII', f.get('major', 1), f.get('minor', 0), f['keepalive_ms'], f['lifetime_ms'])
        if f.get('resume'):
            tok = f.get('token', b'')
            body += struct.pack('>H', len(tok)) + tok
        mm = f.get('metadata_mime', b'application/json')
        dm = f.get('data_mime', b'application/json')
        body += bytes((len(mm),)) + mm + bytes((len(dm),)) + dm
    elif t == 'LEASE':
        body = struct.pack('>II', f['ttl_ms'], f['requests'])
        tail_md_len = False
    elif t == 'KEEPALIVE':
        if f.get('respond'):
            flags |= F_80
        body = struct.pack('>Q', f.get('position', 0))
    elif t in ('REQUEST_RESPONSE', 'REQUEST_FNF'):
        if f.get('follows'):
            flags |= F_80
    elif t in ('REQUEST_STREAM', 'REQUEST_CHANNEL'):
        if f.get('follows'):
            flags |= F_80
        if f.get('complete'):
            flags |= F_40
        body = struct.pack('>I', f['n'])
    elif t == 'REQUEST_N':
        body = struct.pack('>I', f['n'])
    elif t == 'CANCEL':
        pass
    elif t == 'PAYLOAD':
        if f.get('follows'):
            flags |= F_80
        if f.get('complete'):
            flags |= F_40
        if f.get('next'):
            flags |= F_20
    elif t == 'ERROR':
        body = struct.pack('>I', f['code'])
    elif t == 'METADATA_PUSH':
        tail_md_len = False
    elif t == 'RESUME':
        tok = f.get('token', b'')
        body = struct.pack('>HHH', f.get('major', 1), f.get('minor', 0), len(tok)) + tok
        body += struct.pack('>QQ', f.get('last_server_position', 0), f.get('first_client_position', 0))
    elif t == 'RESUME_OK':
        body = struct.pack('>Q', f.get('position', 0))
    tid = f.get('type_id', TYPE_IDS.get(t, 0))
    out = struct.pack('>IH', f.get('sid', 0), (tid << 10) | flags) + body
    if has_md:
        m = md or b''
        if tail_md_len:
            out += _p24(len(m))
        out += m
    return out + data


def with_length(body):
    return _p24(len(body)) + body


def split_records(stream):
    """Split a length-prefixed byte stream into record bodies; returns (records, rest)."""
    out = []
    off = 0
    n = len(stream)
    while off + 3 <= n:
        ln = _u24(stream, off)
        if off + 3 + ln > n:
            break
        out.append(bytes(stream[off + 3:off + 3 + ln]))
        off += 3 + ln
    return out, bytes(stream[off:])


def brief(f):
    """One-line human summary of a decoded frame."""
    if f is None:
        return 'None'
    t = f.get('type')
    s = '%s(%d' % (t, f.get('sid', 0))
    for k in ('follows', 'complete', 'next', 'respond', 'lease', 'resume', 'ignore'):
        if f.get(k):
            s += ' ' + k[0].upper()
    if 'n' in f:
        s += ' n=%d' % f['n']
    if 'code' in f:
        s += ' code=%s' % ERROR_CODES.get(f['code'], hex(f['code']))
    md = f.get('metadata')
    if md:
        s += ' md=%d' % len(md)
    d = f.get('data')
    if d:
        s += ' d=%d' % len(d)
    return s + ')'
