"""C05 Per-stream wire order and fragment contiguity under multiplexing."""
from .. import assert_repo

ID = 'C05'
LEVEL = 'exploration'
RULE = ('burst: seeded E-mix cases biased to build up the send queue: publishers emitting 2..6 multi-fragment elements '
        'back to back on one stream followed at once by completion / error, requesters issuing request(n) and cancel() '
        'right behind a multi-fragment request, 1..4 such streams per side, drain() stalls. The order in which frames '
        'enter each endpoint\'s send path (send_frame / send_priority_frame, recorded per instance) is compared per '
        'stream with the order at Transport.send_frame, reassembling fragment runs. non-trivial = a run in which some '
        'stream had >= 2 frames queued while a fragmented frame of that stream was still being sent; distinct by case '
        'descriptor digest.')
ASSUMPTIONS = ['the order in which frames are handed to an endpoint is observed by wrapping send_request / send_frame / '
               'send_priority_frame of each endpoint instance (a frame the endpoint retains for a lease counts from '
               'the moment it was handed over)',
               'SETUP may overtake (priority insert) on stream 0 only']
DECIDING_REQUIRED = ('fragment_runs_checked', 'frames_behind_unfinished_run', 'frames_order_checked')
BUDGET_S = {'quick': 100, 'thorough': 1800}


def plan(tier, seed):
    return [('burst', 5000 if tier == 'quick' else 60000)]


def _content(f):
    return (bytes(f.get('metadata') or b''), bytes(f.get('data') or b''))


def _ident(f):
    md, d = _content(f)
    return (f['type'], f.get('n'), f.get('code'), bool(f.get('complete')), md, d)


def monitor(world):
    """Replays queue and wire events per endpoint and stream.  Returns (witnesses, stats)."""
    from ..minicodec import brief
    wit = []
    st = {'fragment_runs_checked': 0, 'frames_behind_unfinished_run': 0, 'frames_order_checked': 0,
          'other_streams_interleaved_in_runs': 0}
    fifo = {}      # (ep, sid) -> list of queued frame dicts not yet fully sent
    run = {}       # (ep, sid) -> {'md': bytearray, 'data': bytearray, 'first': frame, 'events': [...]}
    reported = set()

    def bad(clause, ep, sid, **kw):
        if (clause, ep, sid) in reported:
            return
        reported.add((clause, ep, sid))
        d = {'endpoint': ep, 'stream': sid}
        d.update(kw)
        wit.append({'clause': clause, 'detail': d})

    open_runs = {}
    # the order to compare the wire with is the order in which the handlers SUBMITTED the frames to the endpoint;
    # with lease gating a frame may enter the send queue later than that
    handed = 'submit' if any(e['kind'] == 'submit' for e in world.events) else 'queue'
    for e in world.events:
        if e['kind'] == handed:
            f = e['f']
            key = (e['ep'], f.get('sid', 0))
            if e.get('priority'):
                fifo.setdefault(key, []).insert(0, f)      # a priority frame goes ahead of everything queued
                st['priority_inserts_into_nonempty_queue'] = st.get('priority_inserts_into_nonempty_queue', 0) + \
                    (1 if any(v for k2, v in fifo.items() if k2[0] == e['ep'] and (k2 != key or len(v) > 1)) else 0)
            else:
                fifo.setdefault(key, []).append(f)
            if key in run:
                st['frames_behind_unfinished_run'] += 1
            continue
        if e['kind'] != 'wire' or e['dir'] != 'send':
            continue
        f = e['f']
        ep, sid = e['ep'], f.get('sid', 0)
        key = (ep, sid)
        q = fifo.setdefault(key, [])
        for k2 in run:
            if k2[0] == ep and k2 != key:
                st['other_streams_interleaved_in_runs'] += 1
                break
        if sid == 0 and f['type'] == 'SETUP':
            for i, qf in enumerate(q):
                if qf['type'] == 'SETUP':
                    del q[i]
                    break
            continue
        if key in run:
            r = run[key]
            r['events'].append(brief(f))
            head = q[0] if q else None
            ok = f['type'] == 'PAYLOAD' and head is not None
            if ok:
                md, d = _content(f)
                hmd, hd = _content(head)
                ok = hmd[len(r['md']):len(r['md']) + len(md)] == md and (not d or len(r['md']) + len(md) == len(hmd)) \
                    and hd[len(r['data']):len(r['data']) + len(d)] == d
            if not ok:
                bad('fragment-run-interrupted', ep, sid, source_frame=brief(head) if head else None,
                    interrupting_frame=brief(f), run_so_far=r['events'][-6:],
                    queued_behind=[brief(x) for x in q[1:4]])
                del run[key]
                # resynchronise: drop the head, and the interrupting frame if it is queued
                if q:
                    q.pop(0)
                for i, qf in enumerate(q):
                    if _ident(qf)[:3] == _ident(f)[:3]:
                        del q[i]
                        break
                continue
            r['md'] += md
            r['data'] += d
            if not f.get('follows'):
                st['fragment_runs_checked'] += 1
                if (bytes(r['md']), bytes(r['data'])) != (hmd, hd):
                    bad('fragment-run-truncated', ep, sid, source_frame=brief(head), sent_metadata=len(r['md']),
                        sent_data=len(r['data']))
                elif bool(f.get('complete')) != bool(head.get('complete')):
                    bad('fragment-run-complete-flag', ep, sid, source_frame=brief(head), last_fragment=brief(f))
                q.pop(0)
                del run[key]
            continue
        # not inside a run
        head = q[0] if q else None
        if f.get('follows'):
            md, d = _content(f)
            if head is None or f['type'] != head['type'] or not _content(head)[0].startswith(md) \
                    or (d and not (_content(head)[0] == md and _content(head)[1].startswith(d))):
                bad('frame-out-of-queue-order', ep, sid, expected_next=brief(head) if head else None, sent=brief(f),
                    queued=[brief(x) for x in q[:4]])
                continue
            run[key] = {'md': bytearray(md), 'data': bytearray(d), 'events': [brief(f)]}
            continue
        st['frames_order_checked'] += 1
        if head is None or _ident(head) != _ident(f):
            bad('frame-out-of-queue-order', ep, sid, expected_next=brief(head) if head else None, sent=brief(f),
                queued=[brief(x) for x in q[:4]])
            for i, qf in enumerate(q):
                if _ident(qf) == _ident(f):
                    del q[i]
                    break
            continue
        q.pop(0)
    return wit, st


def gen_case(rng, tier):
    from .. import mixgen
    from ..apps import MAX_N
    frags = (64, 65, 70, 100, 128)
    cfg = mixgen.draw_config(rng, links_allowed=mixgen.WITH_WS, frags=frags)
    if rng.random() < 0.15:
        # a lease-honouring client: its requests wait for the server's (small, then unlimited) leases
        cfg['lease'] = mixgen.draw_leases(rng)
    for k in ('knobs_c', 'knobs_s'):
        if rng.random() < 0.5:
            cfg[k].drain = ('virtual', rng.choice([1e-4, 1e-3, 0.01, 0.1]))
    cfg['instrument_queue'] = True
    specs = []
    iid = 1
    for side in 'cs':
        other = 's' if side == 'c' else 'c'
        for _ in range(rng.choice([0, 1, 1, 2, 4])):
            model = rng.choice(['stream', 'stream', 'channel', 'channel', 'rr', 'fnf'])
            fq, fr = cfg['frag_' + side], cfg['frag_' + other]

            def multi(f):
                x = rng.random()
                if x < 0.7:
                    return rng.randrange(f, 5 * f)
                return rng.choice([0, 1, f - 10, rng.randrange(5 * f, 12 * f)])

            def elems(f):
                out = []
                for _ in range(rng.choice([1, 2, 2, 3, 6])):
                    e = (multi(f), multi(f) if rng.random() < 0.4 else 0)
                    out.append(e if e != (0, 0) else (f, 0))
                return out

            spec = {'iid': iid, 'side': side, 'model': model, 'start': mixgen.draw_wait(rng),
                    'req': (max(8, multi(fq)), multi(fq) if rng.random() < 0.3 else 0)}
            if model == 'rr':
                spec['resp'] = {'size': (multi(fr), 0), 'outcome': rng.choice(['ok', 'ok', 'error']),
                                'delay': mixgen.draw_wait(rng)}
                if rng.random() < 0.3:
                    spec['rr_cancel'] = mixgen.draw_wait(rng)
            elif model in ('stream', 'channel'):
                spec['resp'] = {'elems': elems(fr), 'terminal': rng.choice(['complete', 'flag', 'error']),
                                'pacing': rng.choice([('sync',), ('sync',), ('burst', 3), ('burst', 6)]),
                                'source': rng.choice(['rec', 'rec', 'gen', 'agen']),
                                'handler_delay': mixgen.draw_wait(rng)}
                spec['n0'] = rng.choice([MAX_N, 6, 3, 2])
                spec['policy'] = ('refill', rng.choice([1, 3, MAX_N]), 0)
                x = rng.random()
                if x < 0.2:
                    spec['cancel_after'] = rng.choice([0, 1, 2])
                elif x < 0.35:
                    spec['cancel_delay'] = mixgen.draw_wait(rng)
                if rng.random() < 0.4:
                    spec['extra_requests'] = [rng.choice([1, 2, MAX_N]) for _ in range(rng.choice([1, 2]))]
                if model == 'channel':
                    if rng.random() < 0.85:
                        spec['up'] = {'elems': elems(fq), 'terminal': rng.choice(['complete', 'flag', 'error']),
                                      'pacing': rng.choice([('sync',), ('burst', 3)]),
                                      'source': rng.choice(['rec', 'rec', 'gen'])}
                        spec['resp']['up_n0'] = rng.choice([MAX_N, 6, 2])
                        spec['resp']['up_policy'] = ('refill', rng.choice([1, 3]), 0)
                    else:
                        spec['up'] = None
            specs.append(spec)
            iid += 1
    if rng.random() < 0.5:
        # several connection-level frames (metadata-push) queued in one go: stream 0 is ordered too
        side = rng.choice('cs')
        for _ in range(rng.choice([2, 3, 4])):
            specs.append({'iid': iid, 'side': side, 'model': 'push', 'start': ('none',),
                          'req': (0, 8 + rng.choice([0, 5, 40]))})
            iid += 1
    if not specs:
        return gen_case(rng, tier)
    if rng.random() < 0.3:
        # send_priority_frame called while the queue is not empty (the library itself only does so for SETUP)
        cfg['priority_inserts'] = [(rng.choice('cs'), mixgen.draw_wait(rng)) for _ in range(rng.choice([1, 2, 4]))]
    return cfg, specs


async def _run(rng, cfg, specs):
    import asyncio
    from ..pair import Pair
    from ..apps import _pace
    p = Pair(rng, cfg)
    p.driver.horizon = 1.0e5
    await p.start()

    async def injector():
        from rsocket.frame import KeepAliveFrame
        for i, (side, wait) in enumerate(cfg.get('priority_inserts', ())):
            await _pace(tuple(wait))
            f = KeepAliveFrame()
            f.flags_respond = False
            f.data = b'priority-%d' % i
            p.ep(side).send_priority_frame(f)

    inj = asyncio.ensure_future(injector())
    await p.run_specs(specs)
    inj.cancel()
    await p.close()
    return p


def run_case(gen, idx, rng, tier):
    assert_repo()
    from .. import vloop, mixgen
    from ..runner import short_hash
    from ..pair import trace_excerpt
    cfg, specs = gen_case(rng, tier)
    p = vloop.run(_run(rng, cfg, specs))
    world = p.world
    wit, st = monitor(world)
    desc = {'config': mixgen.describe_cfg(cfg), 'interactions': specs}
    if cfg.get('priority_inserts'):
        desc['config']['priority_inserts'] = [list(x) for x in cfg['priority_inserts']]
    for w in wit:
        w['detail']['config'] = desc['config']
        sid = w['detail']['stream']
        ep = w['detail']['endpoint']
        tr = []
        from ..minicodec import brief
        for e in world.events:
            if e['kind'] in ('submit', 'wire') and e['ep'] == ep and e['f'].get('sid') == sid and \
                    (e['kind'] == 'submit' or e['dir'] == 'send'):
                tr.append('%.6f %s %s' % (e['t'], 'submit' if e['kind'] == 'submit' else 'wire  ', brief(e['f'])))
        w['detail']['trace'] = tr[:60]
    nontrivial = st['frames_behind_unfinished_run'] > 0
    ev = {'wire_frames': sum(1 for e in world.events if e['kind'] == 'wire'),
          'queue_events': sum(1 for e in world.events if e['kind'] == 'queue'),
          'other_streams_interleaved_in_runs': st.pop('other_streams_interleaved_in_runs'),
          'priority_inserts_into_nonempty_queue': st.pop('priority_inserts_into_nonempty_queue', 0)}
    seen = set()
    ws = []
    for w in wit:
        k = (w['clause'], classify(w))
        if k not in seen:
            seen.add(k)
            ws.append(w)
    return {'evals': 1, 'nt_keys': [short_hash(desc)] if nontrivial else [], 'sigs': [world.signature()],
            'deciding': st, 'counts': ev, 'witnesses': ws, 'sample': desc}


def classify(w):
    return None
