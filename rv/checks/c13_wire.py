"""Wire-level generators for C13: ids of request frames on real endpoints (with a reduced id space so that the
allocator wraps within a run) and the duplicate-id clause against a raw peer."""
import asyncio


def plan(tier, seed):
    return [('wire-wrap', 1000 if tier == 'quick' else 12000), ('dup-id', len(_dup_cases())),
            ('held-publisher', 200 if tier == 'quick' else 3000)]


async def _wrap(rng, desc):
    from ..pair import Pair
    from .. import mixgen
    cfg = mixgen.draw_config(rng, frags=(None, 64))
    cfg['instrument_queue'] = True
    p = Pair(rng, cfg)
    p.driver.horizon = 1.0e5
    await p.start()
    for side in 'cs':
        p.ep(side)._stream_control._maximum_stream_id = desc['space']
    world = p.world
    specs = desc['_specs']
    for s in specs:
        world.specs[s['iid']] = s
        world.inter[s['iid']] = {}
    # sequential waves so that ids wrap while the long-lived streams stay active
    waves = desc['_waves']
    tasks = []
    for wave in waves:
        ts = [asyncio.ensure_future(p.driver.run_interaction(p.ep(s['side']), s['side'], s)) for s in wave]
        tasks += ts
        short = [t for t, s in zip(ts, wave) if not s.get('long')]
        if short:
            await asyncio.wait(short)
        await asyncio.sleep(0.05)
    await asyncio.sleep(1.0)
    for t in tasks:
        t.cancel()
    await p.close()
    return p


def judge_ids(world, space):
    """Per endpoint: every request frame it decides to send must carry a legal, fresh id that is the next free id
    after its previous allocation (cyclic, +2), skipping only 0 and ids it still holds open."""
    from ..protocol_model import LegalityAutomaton, REQ
    wit = []
    st = {'request_ids_checked': 0, 'wire_wraps_seen': 0, 'ids_skipped_because_active': 0}
    for ep, role in (('c', 'client'), ('s', 'server')):
        a = LegalityAutomaton(role)
        a.sent_any = True
        parity = 1 if role == 'client' else 0
        last = None
        size = space + 1
        for e in world.events:
            if e.get('ep') != ep:
                continue
            if e['kind'] == 'wire' and e['dir'] == 'recv':
                a.on_recv(e['f'])
            elif e['kind'] == 'queue':
                f = e['f']
                if f.get('type') in REQ:
                    sid = f['sid']
                    st['request_ids_checked'] += 1
                    open_ids = {s.sid for s in a.streams.values() if not s.dead and s.role == 'requester'}
                    ctx = {'endpoint': ep, 'stream_id': sid, 'previous_id': last, 'open_ids': sorted(open_ids),
                           'space': space}
                    if sid == 0:
                        wit.append({'clause': 'request-on-stream-0', 'detail': ctx})
                    elif (sid & 1) != parity:
                        wit.append({'clause': 'request-id-wrong-parity', 'detail': ctx})
                    elif sid in open_ids:
                        wit.append({'clause': 'request-id-still-active', 'detail': ctx})
                    elif sid > space:
                        wit.append({'clause': 'request-id-outside-space', 'detail': ctx})
                    else:
                        cur = last if last is not None else (parity - 2) % size
                        skipped = []
                        steps = 0
                        while True:
                            cur = (cur + 2) % size
                            steps += 1
                            if cur == sid or steps > size:
                                break
                            skipped.append(cur)
                        wrongly = [x for x in skipped if x != 0 and x not in open_ids]
                        st['ids_skipped_because_active'] += sum(1 for x in skipped if x in open_ids)
                        if last is not None and sid <= last:
                            st['wire_wraps_seen'] += 1
                        if wrongly:
                            wit.append({'clause': 'free-id-skipped', 'detail': dict(ctx, skipped_free_ids=wrongly)})
                    last = sid
                if f.get('type') not in ('SETUP',):
                    a.on_send(f)
    return wit, st


def gen_wrap(rng):
    from .. import mixgen
    space = rng.choice([0x7, 0xF, 0xF, 0x1F])
    specs = []
    waves = []
    iid = 1
    nwaves = rng.choice([6, 10, 16])
    cfg_stub = {'frag_c': None, 'frag_s': None}
    for w in range(nwaves):
        wave = []
        for side in 'cs':
            for _ in range(rng.choice([0, 1, 1, 2, 3])):
                model = rng.choice(['rr', 'rr', 'fnf', 'stream', 'stream'])
                s = {'iid': iid, 'side': side, 'model': model, 'start': ('none',), 'req': (12, 0)}
                long_lived = False
                if model == 'rr':
                    s['resp'] = {'size': (4, 0), 'outcome': 'ok', 'delay': rng.choice([('none',), ('ticks', 2)])}
                    if rng.random() < 0.15:
                        s['resp']['outcome'] = 'never'
                        long_lived = True
                elif model == 'stream':
                    term = 'never' if rng.random() < 0.3 else rng.choice(['complete', 'flag'])
                    s['resp'] = {'elems': [(3, 0)] * rng.choice([0, 1, 3]), 'terminal': term, 'pacing': ('sync',),
                                 'source': 'rec'}
                    s['n0'], s['policy'] = 5, ('refill', 5, 0)
                    long_lived = term == 'never'
                if long_lived:
                    s['long'] = True
                specs.append(s)
                wave.append(s)
                iid += 1
        waves.append(wave)
    return {'space': space, 'waves': [[s['iid'] for s in w] for w in waves], '_specs': specs, '_waves': waves,
            'interactions': [{k: v for k, v in s.items() if k in ('iid', 'side', 'model', 'long')} for s in specs]}


# ---- an id handed out to a publisher that is subscribed only later ------------------------------------------


async def _held(rng, d):
    """request_stream() / request_channel() hand out an id when they are called; the publisher may be subscribed
    much later. Until that stream has ended the id is in use: the allocator must skip it when it wraps."""
    from ..pair import Pair
    from .. import mixgen
    from ..apps import RecSubscriber, make_payload, DIR_REQUEST, DIR_RESPONSE
    cfg = mixgen.draw_config(rng, frags=(None,))
    cfg['instrument_queue'] = True
    p = Pair(rng, cfg)
    p.driver.horizon = 1.0e5
    await p.start()
    for side in 'cs':
        p.ep(side)._stream_control._maximum_stream_id = d['space']
    world = p.world
    side = d['side']
    ep = p.ep(side)
    specs = []
    held_iid = 900
    hs = {'iid': held_iid, 'side': side, 'model': d['model'], 'req': (12, 0),
          'resp': {'elems': [(3, 0)] * 2, 'terminal': 'complete', 'pacing': ('sync',), 'source': 'rec'}}
    world.specs[held_iid] = hs
    world.inter[held_iid] = {}
    for i in range(d['before']):
        specs.append({'iid': 1 + i, 'side': side, 'model': 'rr', 'start': ('none',), 'req': (12, 0),
                      'resp': {'size': (4, 0), 'outcome': 'ok', 'delay': ('none',)}})
    for s in specs:
        world.specs[s['iid']] = s
        world.inter[s['iid']] = {}
        await p.driver.run_interaction(ep, side, s)
    payload = make_payload(held_iid, DIR_REQUEST, 0, 12, 0)
    pub = ep.request_stream(payload) if d['model'] == 'stream' else ep.request_channel(payload)
    held = getattr(pub, 'stream_id', None)
    mark = len(world.events)
    later = []
    for i in range(d['between']):
        s = {'iid': 100 + i, 'side': side, 'model': 'rr', 'start': ('none',), 'req': (12, 0),
             'resp': {'size': (4, 0), 'outcome': 'ok', 'delay': ('none',)}}
        world.specs[s['iid']] = s
        world.inter[s['iid']] = {}
        later.append(s)
        await p.driver.run_interaction(ep, side, s)
    interim = [e['f']['sid'] for e in world.events[mark:] if e['kind'] == 'queue' and e['ep'] == side and
               e['f'].get('type', '').startswith('REQUEST_') and e['f']['type'] != 'REQUEST_N']
    sub = RecSubscriber(world, held_iid, DIR_RESPONSE, 'held-sub', policy=('refill', 5, 0), initial_granted=5)
    mark2 = len(world.events)
    pub.initial_request_n(5).subscribe(sub)
    await asyncio.sleep(1.0)
    after = [e['f']['sid'] for e in world.events[mark2:] if e['kind'] == 'queue' and e['ep'] == side and
             e['f'].get('type') in ('REQUEST_STREAM', 'REQUEST_CHANNEL')]
    results = [world.inter[s['iid']].get('result') for s in later]
    got = list(sub.values)
    log = [x[0] if isinstance(x, (list, tuple)) else x for x in getattr(sub, 'log', [])]
    await p.close()
    results = [r and (r[0],) for r in results]
    return {'held_id': held, 'interim_ids': interim, 'request_frame_ids': after, 'later_results': results,
            'held_elements': len(got), 'held_log': log[-4:]}, world


# ---- duplicate id ---------------------------------------------------------


def _dup_cases():
    out = []
    for real in 'sc':
        for active in ('rr', 'stream', 'channel'):
            for second in ('REQUEST_RESPONSE', 'REQUEST_STREAM', 'REQUEST_CHANNEL', 'REQUEST_FNF'):
                for link in ('bytes', 'messages'):
                    for fragmented in (False, True):
                        out.append({'real': real, 'active': active, 'second': second, 'link': link,
                                    'second_fragmented': fragmented})
    return out


async def _dup(rng, case):
    from ..rawpeer import RawWorld
    from ..apps import make_payload, pkey, DIR_REQUEST, DIR_RESPONSE
    real = case['real']
    rw = RawWorld(rng, real, link_kind=case['link'])
    world = rw.world
    await rw.start()
    peer = rw.peer
    await asyncio.sleep(0.2)
    sid = 1 if real == 's' else 2
    world.specs[1] = {'iid': 1, 'model': case['active'], 'side': 'x',
                      'resp': {'size': (6, 0), 'outcome': 'ok', 'delay': ('virtual', 5.0),
                               'elems': [(5, 0), (6, 0), (7, 0)], 'terminal': 'complete', 'pacing': ('sync',),
                               'source': 'rec', 'up_n0': 1}}
    world.specs[2] = {'iid': 2, 'model': 'rr', 'side': 'x', 'resp': {'size': (3, 0), 'outcome': 'ok',
                                                                  'elems': [(9, 0)], 'terminal': 'complete'}}
    world.inter[1] = {}
    world.inter[2] = {}
    t = {'rr': 'REQUEST_RESPONSE', 'stream': 'REQUEST_STREAM', 'channel': 'REQUEST_CHANNEL'}[case['active']]
    f = {'type': t, 'sid': sid, 'data': make_payload(1, DIR_REQUEST, 0, 12, 0).data, 'metadata': None}
    if case['active'] != 'rr':
        f['n'] = 1
    peer.send(f)
    await asyncio.sleep(0.5)
    since = len(peer.received)
    g = {'type': case['second'], 'sid': sid, 'data': make_payload(2, DIR_REQUEST, 0, 12, 0).data, 'metadata': None}
    if case['second'] in ('REQUEST_STREAM', 'REQUEST_CHANNEL'):
        g['n'] = 5
    if case.get('second_fragmented'):
        # the duplicate arrives in two fragments: request frame with FOLLOWS, then a PAYLOAD carrying the rest
        whole = g['data']
        g['data'] = whole[:7]
        g['follows'] = True
        peer.send(g)
        peer.send({'type': 'PAYLOAD', 'sid': sid, 'next': True, 'complete': False, 'data': whole[7:], 'metadata': None})
    else:
        peer.send(g)
    await asyncio.sleep(1.0)
    errors = [x for x in peer.frames('ERROR', sid, since)]
    second_handled = [e for e in world.events if e['kind'] == 'handler' and e.get('iid') == 2]
    # the original stream must still work
    if case['active'] != 'rr':
        peer.send({'type': 'REQUEST_N', 'sid': sid, 'n': 5})
    await asyncio.sleep(6.0)
    got = peer.reassembled(sid)
    await rw.close()
    if case['active'] == 'rr':
        want = [pkey(make_payload(1, DIR_RESPONSE, 0, 6, 0))]
    else:
        want = [pkey(make_payload(1, DIR_RESPONSE, i, dl, ml)) for i, (dl, ml) in enumerate([(5, 0), (6, 0), (7, 0)])]
    elems = [(bytes(x.get('data') or b''), bytes(x.get('metadata') or b'')) for x in got
             if x['type'] == 'PAYLOAD' and (x.get('next') or x.get('data'))]
    return errors, second_handled, elems == want, [x for x in got]


def run_case(gen, idx, rng, tier):
    from .. import vloop
    from ..runner import short_hash
    from ..minicodec import brief
    base = {'allocations_compared': 0, 'wraps_seen': 0, 'exhaustion_agreed': 0}
    if gen == 'wire-wrap':
        desc = gen_wrap(rng)
        p = vloop.run(_wrap(rng, desc))
        wit, st = judge_ids(p.world, desc['space'])
        public = {k: v for k, v in desc.items() if not k.startswith('_')}
        seen = set()
        ws = []
        for w in wit:
            if w['clause'] not in seen:
                seen.add(w['clause'])
                w['detail']['case'] = public
                ws.append(w)
        d = dict(base)
        d.update({'request_ids_checked': st['request_ids_checked'], 'wire_wraps_seen': st['wire_wraps_seen'],
                  'ids_skipped_because_active': st['ids_skipped_because_active']})
        return {'evals': 1, 'nt_keys': [short_hash(public)] if st['wire_wraps_seen'] else [], 'deciding': d,
                'witnesses': ws, 'sigs': [p.world.signature()], 'sample': public}
    if gen == 'held-publisher':
        space = rng.choice([0x7, 0xF, 0xF, 0x1F])
        per_parity = (space + 1) // 2
        d = {'space': space, 'side': rng.choice('cs'), 'model': rng.choice(['stream', 'channel']),
             'before': rng.choice([0, 1, 3]), 'between': per_parity + rng.choice([0, 1, 2, per_parity])}
        obs, world = vloop.run(_held(rng, d))
        if obs['held_id'] is None:
            return {'inconclusive': 'publisher has no stream_id attribute'}
        wit = []
        if obs['held_id'] in obs['interim_ids']:
            wit.append({'clause': 'id-of-unsubscribed-publisher-handed-out-again', 'detail': {'case': d, 'observed': obs}})
        if obs['request_frame_ids'] != [obs['held_id']]:
            wit.append({'clause': 'held-publisher-request-frame-id-differs', 'detail': {'case': d, 'observed': obs}})
        if obs['held_elements'] != 2:
            wit.append({'clause': 'held-publisher-stream-not-served', 'detail': {'case': d, 'observed': obs}})
        bad_later = [r for r in obs['later_results'] if not r or r[0] != 'result']
        if bad_later:
            wit.append({'clause': 'request-made-while-publisher-held-not-served', 'detail': {'case': d, 'observed': obs}})
        dd = dict(base)
        dd['held_publisher_wraps'] = 1 if len(obs['interim_ids']) >= per_parity else 0
        return {'evals': 1, 'nt_keys': [short_hash(d)], 'deciding': dd, 'witnesses': wit[:2], 'sample': d}
    case = _dup_cases()[idx]
    errors, second_handled, original_ok, got = vloop.run(_dup(rng, case))
    wit = []
    if [e['code'] for e in errors] != [0x202]:
        wit.append({'clause': 'duplicate-id-not-rejected', 'detail': {'case': case,
                                                                      'errors': [brief(e) for e in errors]}})
    if second_handled:
        wit.append({'clause': 'duplicate-id-request-reached-the-handler', 'detail': {'case': case}})
    if not original_ok:
        wit.append({'clause': 'original-stream-replaced-or-broken', 'detail': {'case': case,
                                                                               'frames': [brief(x) for x in got]}})
    d = dict(base)
    d['dup_request_rejected'] = 1 if not wit else 0
    return {'evals': 1, 'nt_count': 1, 'deciding': d, 'witnesses': wit, 'sample': case}
