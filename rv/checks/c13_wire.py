"""Wire-level generators for C13 (filled in once the endpoint engines exist)."""


def plan(tier, seed):
    return []


def run_case(gen, idx, rng, tier):
    raise KeyError(gen)
