"""C09 Cancellation stops the stream at both ends."""
import asyncio

from .. import assert_repo
from ..links import ANY_LINK

ID = 'C09'
LEVEL = 'exploration'
RULE = ('cancel: seeded E-mix cases with 1..2 cancelling interactions (request-response future cancel, stream / channel '
        'subscriber cancel inside on_subscribe, after the k-th element or after a delay; responder-side cancel of a '
        'channel\'s requester direction) against every library source on the producing side (recording publisher, '
        'generator, async generator, Rx v3/v4 plain and back-pressure observables) plus 1..3 bystander interactions that '
        'must complete untouched; link batching puts CANCEL into the same read as the request. script: the C07 history '
        'enumeration (local cancel at every position; peer CANCEL at every position against a manual publisher / '
        'future). non-trivial = a run in which a pending interaction was cancelled and at least one other stream was '
        'open at that moment (mix) / a history with a cancel step (script).')
ASSUMPTIONS = ['an interaction is pending at cancel() when the canceller had received no terminal signal for it',
               'production after cancellation = an element handed to the library by the producing application after the '
               'CANCEL frame was received by the producing endpoint (its own tap order)']
EXHAUSTIVE_GENS = ('script',)
DECIDING_REQUIRED = ('pending_cancels_judged', 'cancel_frames_received_by_producer', 'cancel_before_first_credit',
                     'bystanders_checked')
BUDGET_S = {'quick': 100, 'thorough': 2400}

SOURCES = ['rec', 'rec', 'gen', 'agen', 'rx4', 'rx4bp', 'rx3', 'rx3bp']
TERMINALS = ('on_complete', 'on_next_complete', 'on_error')


def plan(tier, seed):
    from . import c07
    return [('cancel', 5000 if tier == 'quick' else 60000), ('raw-cancel', 2500 if tier == 'quick' else 40000),
            ('script', len(c07.script_cases(tier))), ('routed-cancel', 300 if tier == 'quick' else 4000)]


def gen_case(rng, tier):
    from .. import mixgen
    from ..apps import MAX_N
    cfg = mixgen.draw_config(rng)
    if rng.random() < 0.15:
        # a lease-honouring client: its requests wait for the server's (small, then unlimited) leases
        cfg['lease'] = mixgen.draw_leases(rng)
    if rng.random() < 0.5:       # batching: request and CANCEL arrive in one read
        for k in ('knobs_c', 'knobs_s'):
            cfg[k].latency = ('none',)
            cfg[k].chunking = ('whole',)
            cfg[k].read_buffer_size = 65536
    cfg['instrument_queue'] = True
    specs = []
    iid = 1
    for _ in range(rng.choice([1, 1, 2])):
        side = rng.choice('cs')
        model = rng.choice(['stream', 'stream', 'channel', 'channel', 'rr'])
        s = mixgen.draw_spec(rng, iid, cfg, side=side, model=model, big=0.0, many=0.02, sources=SOURCES)
        s['canceller'] = True
        if model == 'rr':
            s['resp']['outcome'] = rng.choice(['ok', 'never', 'never', 'error'])
            s['resp']['delay'] = rng.choice([('none',), ('ticks', 2), ('virtual', 0.01), ('virtual', 1.0)])
            s['rr_cancel'] = rng.choice([('none',), ('ticks', 1), ('ticks', 3), ('virtual', 1e-3), ('virtual', 0.5)])
        else:
            resp = s['resp']
            n = rng.choice([0, 1, 3, 8, 20])
            resp['elems'] = [(rng.choice([1, 9, 70, 200]), 0) for _ in range(n)]
            resp['terminal'] = rng.choice(['complete', 'flag', 'never', 'never', 'error'])
            s['n0'], s['policy'] = rng.choice([(MAX_N, ('refill', MAX_N, 0)), (1, ('refill', 1, 0)), (2, ('refill', 3, 0))])
            x = rng.random()
            if x < 0.3:
                s['cancel_after'] = 0
            elif x < 0.65:
                s['cancel_after'] = rng.randrange(1, max(2, n + 1))
            else:
                s['cancel_delay'] = rng.choice([('none',), ('ticks', 1), ('ticks', 4), ('virtual', 1e-4), ('virtual', 0.05)])
            if model == 'channel' and s.get('up') is not None:
                s['up']['terminal'] = rng.choice(['complete', 'never', 'flag'])
                if rng.random() < 0.35:
                    resp['up_cancel_after'] = rng.randrange(0, len(s['up']['elems']) + 1)
        specs.append(s)
        iid += 1
    for _ in range(rng.choice([1, 2, 3])):
        s = mixgen.draw_spec(rng, iid, cfg, big=0.0, many=0.02, sources=('rec', 'gen', 'agen'))
        s['bystander'] = True
        specs.append(s)
        iid += 1
    return cfg, specs


async def _run(rng, cfg, specs):
    from ..pair import Pair
    p = Pair(rng, cfg)
    p.driver.horizon = 1.0e5
    await p.start()
    await p.run_specs(specs)
    sids = {}
    for s in specs:
        h = p.world.inter[s['iid']].get('stream_handle')
        sids[s['iid']] = getattr(h, 'stream_id', None)
    await p.close()
    return p, sids


def _first_index(world, **match):
    for e in world.events:
        if all(e.get(k) == v for k, v in match.items()):
            return e['i']
    return None


async def _raw_cancel(rng, d):
    """A real endpoint producing from one of the library's sources; the raw peer consumes and cancels, possibly
    granting credit again afterwards (a foreign peer may do that; a cancelled source must stay stopped)."""
    import asyncio
    from ..rawpeer import RawWorld
    from ..apps import make_payload, DIR_REQUEST, DIR_RESPONSE, DIR_CHANNEL_UP, RecSubscriber
    real = d['real']
    rw = RawWorld(rng, real, link_kind=d['link'], frag=d['frag'])
    world = rw.world
    await rw.start()
    peer = rw.peer
    await asyncio.sleep(0.2)
    iid = 1
    cfg = {'elems': [(d['size'], 0)] * d['count'], 'terminal': d['terminal'], 'pacing': tuple(d['pacing']),
           'source': d['source']}
    world.inter[iid] = {}
    req = make_payload(iid, DIR_REQUEST, 0, 12, 0)
    if d['producer'] == 'responder':
        direction = DIR_RESPONSE
        sid = 1 if real == 's' else 2
        world.specs[iid] = {'iid': iid, 'model': d['model'], 'side': 'x', 'resp': dict(cfg, up_n0=1)}
        t = 'REQUEST_STREAM' if d['model'] == 'stream' else 'REQUEST_CHANNEL'
        first = {'type': t, 'sid': sid, 'n': d['n0'], 'data': req.data, 'metadata': None}
    else:
        # the real endpoint is the channel requester, its publisher is the library source
        direction = DIR_CHANNEL_UP
        sid = 1 if real == 'c' else 2
        world.specs[iid] = {'iid': iid, 'model': 'channel', 'side': real, 'up': cfg}
        pub = rw.driver._publisher(real + '-requester', iid, DIR_CHANNEL_UP, cfg)
        sub = RecSubscriber(world, iid, DIR_RESPONSE, 'real-sub', policy=('never',), initial_granted=1)
        rw.ep.request_channel(req, pub).initial_request_n(1).subscribe(sub)
        await asyncio.sleep(0.1)
        first = {'type': 'REQUEST_N', 'sid': sid, 'n': d['n0']}
    head = [] if (d.get('cancel_before_any_credit') and d['producer'] != 'responder') else [first]
    steps = head + [{'type': 'REQUEST_N', 'sid': sid, 'n': n} for n in (d['more'] if head else [])] + [{'type': 'CANCEL', 'sid': sid}] \
        + [{'type': 'REQUEST_N', 'sid': sid, 'n': n} for n in d['late']]
    gaps = d['gaps']
    for i, f in enumerate(steps):
        world.log('peer_send', step=f['type'] + ('(%d)' % f['n'] if 'n' in f else ''))
        peer.send(f)
        g = gaps[i % len(gaps)]
        if g[0] == 'ticks':
            for _ in range(g[1]):
                await asyncio.sleep(0)
        elif g[0] == 'virtual':
            await asyncio.sleep(g[1])
    await asyncio.sleep(5.0)
    st = world.inter[iid]
    await rw.close()
    return world, st, direction, sid


def run_raw_cancel(idx, rng, tier):
    from .. import vloop
    from ..runner import short_hash
    from ..pair import trace_excerpt
    MAXN = 0x7FFFFFFF
    gap = lambda: rng.choice([('none',), ('none',), ('ticks', 1), ('ticks', 3), ('virtual', 1e-3), ('virtual', 0.05), ('virtual', 0.5)])
    d = {'real': rng.choice('sc'), 'link': rng.choice(ANY_LINK), 'frag': rng.choice([None, None, 64]),
         'producer': rng.choice(['responder', 'responder', 'channel-requester']),
         'model': rng.choice(['stream', 'channel']), 'source': rng.choice(SOURCES),
         'count': rng.choice([0, 1, 3, 10, 40]), 'size': rng.choice([1, 20, 200]),
         'terminal': rng.choice(['complete', 'never', 'never', 'flag']),
         'pacing': rng.choice([('sync',), ('tick',), ('timed', 0.01), ('timed', 0.2)]),
         'n0': rng.choice([1, 1, 2, 5, MAXN]), 'more': [rng.choice([1, 2, 5]) for _ in range(rng.choice([0, 0, 1, 2]))],
         'late': [rng.choice([1, 3, MAXN]) for _ in range(rng.choice([0, 1, 1, 2]))],
         'gaps': [gap() for _ in range(4)], 'cancel_before_any_credit': rng.random() < 0.3}
    world, st, direction, sid = vloop.run(_raw_cancel(rng, d))
    wit = []
    stats = {'pending_cancels_judged': 0, 'cancel_frames_received_by_producer': 0, 'cancel_before_first_credit': 0,
             'bystanders_checked': 0}

    def bad(clause, **kw):
        wit.append({'clause': clause, 'detail': dict(kw, case=d, trace=trace_excerpt(world, 80)[-60:])})

    recv = next((e['i'] for e in world.events if e['kind'] == 'wire' and e['dir'] == 'recv' and e['ep'] == d['real']
                 and e['f'].get('type') == 'CANCEL' and e['f'].get('sid') == sid), None)
    if recv is not None:
        stats['cancel_frames_received_by_producer'] = 1
        stats['pending_cancels_judged'] = 1
        finished_before = any(e['kind'] == 'emit_terminal' and e['i'] < recv for e in world.events) or \
            any(e['kind'] == 'emit' and e.get('complete') and e['i'] < recv for e in world.events)
        late = [e for e in world.events if e['kind'] == 'emit' and e.get('dir') == direction and e['i'] > recv]
        if late:
            bad('production-after-cancel', produced_after_cancel=len(late), source=d['source'])
        queued = [e for e in world.events if e['kind'] == 'queue' and e['ep'] == d['real'] and e['i'] > recv
                  and e['f'].get('sid') == sid and e['f'].get('type') == 'PAYLOAD' and e['f'].get('next')]
        if queued:
            bad('elements-sent-after-cancel', frames=len(queued), source=d['source'])
        pub = st.get('publishers', {}).get(direction)
        g = st.get('gen_sources', {}).get(direction)
        if pub is not None and pub.subscriber is not None and not finished_before and pub.cancel_calls == 0:
            bad('publisher-not-cancelled', source='rec')
        if g is not None:
            if g['next_calls'] == 0:
                stats['cancel_before_first_credit'] = 1
            if d['source'] in ('gen', 'agen') and not finished_before and st.get('lib_sources') and g['cancel_cb'] == 0:
                bad('publisher-not-cancelled', source=d['source'], generator_started=g['next_calls'] > 0)
            if g.get('next_after_close'):
                bad('production-after-cancel', source=d['source'], generator_resumed_after_close=True)
            if d['source'] in ('rx4bp', 'rx3bp') and not finished_before and 'completed' not in g.get('feedback', []) \
                    and any(isinstance(x, int) for x in g.get('feedback', [])):
                bad('publisher-not-cancelled', source=d['source'], feedback=g.get('feedback', [])[:8])
    seen = set()
    ws = [w for w in wit if not (w['clause'] in seen or seen.add(w['clause']))]
    return {'evals': 1, 'nt_keys': [short_hash(d)] if (recv is not None and d['late']) else [], 'deciding': stats,
            'sigs': [world.signature()], 'witnesses': ws, 'counts': {'raw_cancel_source_' + d['source']: 1}, 'sample': d}


def run_case(gen, idx, rng, tier):
    assert_repo()
    if gen == 'script':
        return run_script(idx, rng, tier)
    if gen == 'raw-cancel':
        return run_raw_cancel(idx, rng, tier)
    if gen == 'routed-cancel':
        return run_routed_cancel(idx, rng, tier)
    from .. import vloop, mixgen
    from ..runner import short_hash
    from ..pair import trace_excerpt
    from ..apps import DIR_RESPONSE, DIR_CHANNEL_UP
    from . import c01
    cfg, specs = gen_case(rng, tier)
    p, sids = vloop.run(_run(rng, cfg, specs))
    world = p.world
    st = {'pending_cancels_judged': 0, 'cancel_frames_received_by_producer': 0, 'cancel_before_first_credit': 0,
          'bystanders_checked': 0}
    wit = []
    concurrent_cancel = False

    def bad(clause, iid, **kw):
        d = {'iid': iid}
        d.update(kw)
        d['trace'] = trace_excerpt(world, 90, iid)
        wit.append({'clause': clause, 'detail': d})

    # rr stream ids are not exposed by a handle: recover them from the request frame carrying the iid header
    for e in world.events:
        if e['kind'] == 'queue' and e['f'].get('type') == 'REQUEST_RESPONSE':
            from ..apps import MAGIC
            import struct
            for part in (e['f'].get('data') or b'', e['f'].get('metadata') or b''):
                if part[:4] == MAGIC and len(part) >= 8:
                    sids.setdefault(struct.unpack('>I', part[4:8])[0], None)
                    if sids.get(struct.unpack('>I', part[4:8])[0]) is None:
                        sids[struct.unpack('>I', part[4:8])[0]] = e['f']['sid']
    for spec in specs:
        if not spec.get('canceller'):
            continue
        iid = spec['iid']
        inter = world.inter[iid]
        sid = sids.get(iid)
        side = spec['side']
        other = 's' if side == 'c' else 'c'
        model = spec['model']
        cancels = []        # (canceller endpoint, direction whose producer must stop, index of app_cancel)
        if model == 'rr':
            i = _first_index(world, kind='app_cancel', iid=iid)
            if i is not None:
                cancels.append((side, DIR_RESPONSE, i, None))
        else:
            sub = inter.get('subscriber')
            if sub is not None and sub.cancelled:
                i = _first_index(world, kind='app_cancel', iid=iid, who=sub.who)
                term_before = any(e['kind'] == 'sub' and e.get('who') == sub.who and e.get('ev') in TERMINALS
                                  and e['i'] < i for e in world.events)
                if not term_before:
                    cancels.append((side, DIR_RESPONSE, i, sub))
            up = inter.get('up_subscriber')
            if up is not None and up.cancelled:
                i = _first_index(world, kind='app_cancel', iid=iid, who=up.who)
                term_before = any(e['kind'] == 'sub' and e.get('who') == up.who and e.get('ev') in TERMINALS
                                  and e['i'] < i for e in world.events)
                if not term_before:
                    cancels.append((other, DIR_CHANNEL_UP, i, up))
        for ep, direction, at, sub in cancels:
            if sid is None:
                continue
            producer_ep = 's' if ep == 'c' else 'c'
            st['pending_cancels_judged'] += 1
            # other streams open at that moment?
            opened = set()
            for e in world.events[:at]:
                if e['kind'] == 'wire' and e['dir'] == 'send' and e['f'].get('sid') and \
                        e['f']['type'].startswith('REQUEST_') and e['f']['type'] != 'REQUEST_N':
                    opened.add((e['ep'], e['f']['sid']))
            if len(opened) >= 2:
                concurrent_cancel = True
            # 1. exactly one CANCEL for that stream from the canceller
            ncancel = sum(1 for e in world.events if e['kind'] == 'queue' and e['ep'] == ep
                          and e['f'].get('type') == 'CANCEL' and e['f'].get('sid') == sid)
            if ncancel != 1 and not (ncancel == 0 and _terminal_received_before_cancel_queued(world, ep, sid, model == 'rr')):
                bad('cancel-frames-not-exactly-one', iid, canceller=ep, stream=sid, cancel_frames=ncancel,
                    direction=direction)
            # 2. nothing further delivered to the canceller
            if sub is not None and sub.after_cancel:
                bad('delivered-after-cancel', iid, canceller=ep, stream=sid, callbacks_after_cancel=sub.after_cancel[:5])
            if model == 'rr':
                fut = inter.get('future')
                log = getattr(fut, 'rv_log', [])
                seen_cancel = False
                for what, was_done, arg in log:
                    if what == 'cancel':
                        seen_cancel = True
                    elif seen_cancel:
                        bad('future-touched-after-cancel', iid, future_log=[list(x) for x in log])
                        break
            # 3. the producer on the peer is cancelled and stops producing
            recv_at = None
            for e in world.events:
                if e['kind'] == 'wire' and e['dir'] == 'recv' and e['ep'] == producer_ep and \
                        e['f'].get('type') == 'CANCEL' and e['f'].get('sid') == sid:
                    recv_at = e['i']
                    break
            if recv_at is None:
                continue     # the CANCEL never reached the producer (e.g. the request itself was never sent)
            st['cancel_frames_received_by_producer'] += 1
            req_seen = any(e['kind'] == 'handler' and e.get('iid') == iid for e in world.events)
            if model == 'rr':
                fut = inter.get('resp_future')
                if fut is not None and not inter.get('resp_future_cancelled') and not _resolved_before(fut, world, iid, recv_at):
                    bad('handler-future-not-cancelled', iid, stream=sid)
                late = [e for e in world.events if e['kind'] == 'emit' and e.get('iid') == iid and e['i'] > recv_at]
                if late:
                    bad('production-after-cancel', iid, stream=sid, emitted_after=len(late))
                continue
            pub = inter.get('publishers', {}).get(direction)
            gsrc = inter.get('gen_sources', {}).get(direction)
            finished_before = any(e['kind'] == 'emit_terminal' and e.get('iid') == iid and e.get('dir') == direction
                                  and e['i'] < recv_at for e in world.events) or \
                any(e['kind'] == 'emit' and e.get('iid') == iid and e.get('dir') == direction and e.get('complete')
                    and e['i'] < recv_at for e in world.events)
            late = [e for e in world.events if e['kind'] == 'emit' and e.get('iid') == iid
                    and e.get('dir') == direction and e['i'] > recv_at]
            if late:
                bad('production-after-cancel', iid, stream=sid, direction=direction, emitted_after=len(late),
                    source=(spec['resp'] if direction == DIR_RESPONSE else spec['up']).get('source'))
            if not req_seen:
                continue
            if pub is not None:
                if pub.cancel_calls == 0 and not finished_before and pub.subscriber is not None:
                    bad('publisher-not-cancelled', iid, stream=sid, direction=direction, source='rec')
            elif gsrc is not None:
                src = (spec['resp'] if direction == DIR_RESPONSE else spec['up']).get('source')
                if gsrc['next_calls'] == 0:
                    st['cancel_before_first_credit'] += 1
                if src in ('gen', 'agen') and not finished_before:
                    if gsrc['cancel_cb'] == 0:
                        bad('publisher-not-cancelled', iid, stream=sid, direction=direction, source=src,
                            generator_started=gsrc['next_calls'] > 0)
                    if gsrc['next_after_close']:
                        bad('production-after-cancel', iid, stream=sid, direction=direction, source=src)
                elif src in ('rx4bp', 'rx3bp') and not finished_before:
                    if 'completed' not in gsrc.get('feedback', []):
                        bad('publisher-not-cancelled', iid, stream=sid, direction=direction, source=src)
    # 4. bystanders are served correctly
    by = [s for s in specs if s.get('bystander')]
    counts = {'payloads_emitted': 0, 'payloads_delivered': 0}
    w2 = []
    c01.ledger_check(world, by, w2, counts)
    st['bystanders_checked'] = len(by)
    for w in w2:
        w['clause'] = 'bystander-' + w['clause']
        wit.append(w)
    desc = {'config': mixgen.describe_cfg(cfg), 'interactions': specs}
    seen = set()
    ws = []
    for w in wit:
        k = (w['clause'], classify(w))
        if k not in seen:
            seen.add(k)
            w['detail']['config'] = desc['config']
            w['detail']['interactions'] = specs
            ws.append(w)
    return {'evals': 1, 'nt_keys': [short_hash(desc)] if (st['pending_cancels_judged'] and concurrent_cancel) else [],
            'sigs': [world.signature()], 'deciding': st, 'witnesses': ws,
            'counts': {'wire_frames': sum(1 for e in world.events if e['kind'] == 'wire')}, 'sample': desc}


def _terminal_received_before_cancel_queued(world, ep, sid, rr=True):
    """A future's cancel() takes effect in its done callback, one loop turn later; if the terminating frame of
    the stream is processed in between, the stream is over and (by C08) no CANCEL may be sent any more."""
    for e in world.events:
        if e['kind'] == 'queue' and e['ep'] == ep and e['f'].get('type') == 'CANCEL' and e['f'].get('sid') == sid:
            return False
        if e['kind'] == 'wire' and e['dir'] == 'recv' and e['ep'] == ep and e['f'].get('sid') == sid:
            f = e['f']
            if f['type'] == 'ERROR' or (f['type'] == 'PAYLOAD' and not f.get('follows')
                                         and (f.get('complete') or rr)):
                return True
    return False


def _resolved_before(fut, world, iid, idx):
    return any(e['kind'] in ('emit', 'emit_terminal') and e.get('iid') == iid and e['i'] < idx for e in world.events)


def run_script(idx, rng, tier):
    from .. import script
    from ..pair import trace_excerpt
    from . import c07
    m, r, e, sp, start, count = c07.script_cases(tier)[idx]
    hs = c07.histories(m, r, c07.DEPTH[tier][m])[start:start + count]
    st = {'pending_cancels_judged': 0, 'cancel_frames_received_by_producer': 0, 'cancel_before_first_credit': 0,
          'bystanders_checked': 0}
    wits = []
    nt = 0
    sigs = []
    for j, h in enumerate(hs):
        if not any(s in ('l:cancel', 'l:fut_cancel', 'p:cancel', 'l:sub_cancel') for s in h):
            continue
        link = 'bytes' if (start + j) % 2 == 0 else 'messages'
        res = script.execute(m, r, e, h, sp, rng, link_kind=link)
        world = res.world
        sigs.append(world.signature())
        nt += 1
        ctx = {'model': m, 'role_of_real_endpoint': r, 'endpoint': e, 'spacing': sp, 'history': list(h),
               'skipped_steps': res.skipped, 'framing': link}

        def bad(clause, **kw):
            wits.append({'clause': clause, 'detail': dict(ctx, trace=trace_excerpt(world, 70), **kw)})

        conn_idx = _first_index(world, kind='conn')
        if r == 'requester':
            # local cancel of a pending interaction
            if m == 'rr':
                i = _first_index(world, kind='local', step='l:fut_cancel')
                done_before = any(ev['kind'] == 'future_done' and ev['i'] < (i or 0) for ev in world.events)
                pending = i is not None and not done_before and (conn_idx is None or i < conn_idx)
            else:
                sub = res.sub
                i = _first_index(world, kind='app_cancel', who=sub.who)
                pending = i is not None and not any(
                    ev['kind'] == 'sub' and ev.get('who') == sub.who and ev.get('ev') in TERMINALS and ev['i'] < i
                    for ev in world.events) and (conn_idx is None or i < conn_idx)
            if pending:
                st['pending_cancels_judged'] += 1
                n = sum(1 for ev in world.events if ev['kind'] == 'queue' and ev['f'].get('type') == 'CANCEL'
                        and ev['f'].get('sid') == res.sid)
                if n != 1 and not (n == 0 and _terminal_received_before_cancel_queued(world, e, res.sid, m == 'rr')):
                    bad('cancel-frames-not-exactly-one', cancel_frames=n)
                if m != 'rr' and res.sub.after_cancel:
                    bad('delivered-after-cancel', callbacks_after_cancel=res.sub.after_cancel[:5])
            # responder-side (peer) CANCEL of our channel publisher
            if m == 'channel' and 'p:cancel' in res.executed and res.pub is not None:
                i = _first_index(world, kind='peer_send', step='p:cancel')
                if (conn_idx is None or i < conn_idx) and res.pub.how is None:
                    recv = any(ev['kind'] == 'wire' and ev['dir'] == 'recv' and ev['f'].get('type') == 'CANCEL'
                               for ev in world.events)
                    if recv:
                        st['cancel_frames_received_by_producer'] += 1
                        if res.pub.cancel_calls == 0:
                            bad('publisher-not-cancelled', direction='requester->responder')
        else:
            if 'p:cancel' in res.executed:
                i = _first_index(world, kind='peer_send', step='p:cancel')
                recv = next((ev['i'] for ev in world.events if ev['kind'] == 'wire' and ev['dir'] == 'recv'
                             and ev['f'].get('type') == 'CANCEL'), None)
                if recv is not None and (conn_idx is None or i < conn_idx):
                    st['cancel_frames_received_by_producer'] += 1
                    if m == 'rr':
                        f = res.resp_future
                        done_before = any(ev['kind'] == 'local' and ev.get('step') in ('l:fut_result', 'l:fut_exception',
                                                                                      'l:fut_cancel')
                                          and ev['i'] < recv for ev in world.events)
                        if f is not None and not done_before and not f.cancelled():
                            bad('handler-future-not-cancelled')
                    elif res.pub is not None:
                        ended_before = any(ev['kind'] in ('emit_terminal',) and ev['i'] < recv for ev in world.events) \
                            or any(ev['kind'] == 'emit' and ev.get('complete') and ev['i'] < recv for ev in world.events)
                        if not ended_before and res.pub.cancel_calls == 0 and res.pub.subscriber is not None:
                            bad('publisher-not-cancelled')
            if m == 'channel' and res.up_sub is not None and res.up_sub.cancelled:
                sub = res.up_sub
                i = _first_index(world, kind='app_cancel', who=sub.who)
                pending = not any(ev['kind'] == 'sub' and ev.get('who') == sub.who and ev.get('ev') in TERMINALS
                                  and ev['i'] < i for ev in world.events) and (conn_idx is None or i < conn_idx)
                if pending:
                    st['pending_cancels_judged'] += 1
                    n = sum(1 for ev in world.events if ev['kind'] == 'queue' and ev['f'].get('type') == 'CANCEL'
                            and ev['f'].get('sid') == res.sid)
                    if n != 1:
                        bad('cancel-frames-not-exactly-one', cancel_frames=n, canceller='responder-side subscriber')
                    if sub.after_cancel:
                        bad('delivered-after-cancel', callbacks_after_cancel=sub.after_cancel[:5])
    seen = set()
    ws = []
    for w in wits:
        k = (w['clause'], classify(w))
        if k not in seen:
            seen.add(k)
            ws.append(w)
    return {'evals': len(hs), 'nt_count': nt, 'sigs': sigs, 'deciding': st, 'witnesses': ws,
            'counts': {'histories_%s_%s' % (m, r): len(hs)},
            'sample': {'model': m, 'role_of_real_endpoint': r, 'endpoint': e, 'spacing': sp,
                       'first_history': list(hs[0]), 'last_history': list(hs[-1]), 'histories': len(hs)}}


# ---------------------------------------------------------------------------
# cancellation of requests served through the router (rsocket/routing): what a route returns - a future or
# task for a response, a publisher for a stream / channel - is what "was producing the response"


async def _routed_cancel(rng, d):
    from datetime import timedelta
    from rsocket.payload import Payload
    from rsocket.rsocket_server import RSocketServer
    from rsocket.rsocket_client import RSocketClient
    from rsocket.routing.request_router import RequestRouter
    from rsocket.routing.routing_request_handler import RoutingRequestHandler
    from rsocket.extensions.mimetypes import WellKnownMimeTypes
    from rsocket.extensions.helpers import composite, route as mk_route
    from rsocket.streams.stream_from_async_generator import StreamFromAsyncGenerator
    from reactivestreams.subscriber import DefaultSubscriber
    from .. import links
    router = RequestRouter()
    made = {}         # name -> the future / task the route returned, or the state of its publisher
    loop = asyncio.get_event_loop()

    def slow_result(name):
        async def work():
            try:
                await asyncio.sleep(d['work'])
                made[name]['finished'] = True
                return Payload(b'late-' + name.encode())
            except asyncio.CancelledError:
                made[name]['cancelled_inside'] = True
                raise
        return work

    @router.response('task')
    async def r_task(payload):
        t = asyncio.ensure_future(slow_result('task')())
        made['task'] = {'future': t}
        return t

    @router.response('future')
    async def r_future(payload):
        f = loop.create_future()
        made['future'] = {'future': f}
        loop.call_later(d['work'], lambda: f.done() or (made['future'].__setitem__('finished', True), f.set_result(Payload(b'late-future'))))
        return f

    @router.response('other')
    async def r_other(payload):
        t = asyncio.ensure_future(slow_result('other')())
        made['other'] = {'future': t}
        return t

    @router.response('quick')
    async def r_quick(payload):
        f = loop.create_future()
        f.set_result(Payload(b'quick-answer'))
        return f

    @router.stream('stream')
    async def r_stream(payload):
        st = made['stream'] = {'produced': 0}

        async def gen():
            try:
                i = 0
                while True:
                    await asyncio.sleep(d['work'] / 4)
                    st['produced'] += 1
                    yield Payload(b'e%d' % i), False
                    i += 1
            finally:
                st['generator_closed'] = True
        return StreamFromAsyncGenerator(gen, on_cancel=lambda: st.__setitem__('on_cancel', True))

    link = links.make_link(d['link'], rng)
    server = RSocketServer(link.transports['s'], handler_factory=lambda: RoutingRequestHandler(router))

    async def provider():
        yield link.transports['c']

    client = RSocketClient(provider(), metadata_encoding=WellKnownMimeTypes.MESSAGE_RSOCKET_COMPOSITE_METADATA,
                           keep_alive_period=timedelta(seconds=1e6), max_lifetime_period=timedelta(seconds=2e6))
    await client.connect()
    target = d['target']
    obs = {'target': target}
    other = client.request_response(Payload(b'o', composite(mk_route('other'))))
    got = []
    if target in ('task', 'future'):
        fut = client.request_response(Payload(b'x', composite(mk_route(target))))
        await asyncio.sleep(d['cancel_after'])
        fut.cancel()
    else:
        class Sub(DefaultSubscriber):
            def on_subscribe(self, subscription):
                self.subscription = subscription
                subscription.request(d['n'])

            def on_next(self, value, is_complete=False):
                got.append(bytes(value.data or b''))
        sub = Sub()
        client.request_stream(Payload(b'x', composite(mk_route('stream')))).initial_request_n(d['n']).subscribe(sub)
        await asyncio.sleep(d['cancel_after'])
        sub.subscription.cancel()
    await asyncio.sleep(0.05)
    cancels = [e[3] for e in link.tap.events if e[1] == 'c' and e[2] == 'send' and e[3]['type'] == 'CANCEL']
    obs['cancel_frames'] = [c['sid'] for c in cancels]
    m = made.get(target)
    obs['handler_ran'] = m is not None
    produced_at_cancel = m.get('produced') if m else None
    await asyncio.sleep(d['work'] * 3 + 1.0)
    if m is not None:
        if 'future' in m:
            obs['producer_cancelled'] = m['future'].cancelled()
            obs['producer_finished'] = bool(m.get('finished'))
        else:
            obs['producer_cancelled'] = bool(m.get('on_cancel')) or bool(m.get('generator_closed'))
            obs['produced_after_cancel'] = m['produced'] - produced_at_cancel
    # the other routed request and a later one are undisturbed
    try:
        r = await asyncio.wait_for(other, d['work'] * 3 + 5)
        obs['other'] = bytes(r.data or b'')
    except Exception as e:
        obs['other'] = repr(e)
    try:
        r = await asyncio.wait_for(client.request_response(Payload(b'q', composite(mk_route('quick')))), 5)
        obs['later'] = bytes(r.data or b'')
    except Exception as e:
        obs['later'] = repr(e)
    try:
        await client.close()
        await server.close()
    except Exception:
        pass
    link.stop()
    return obs


def run_routed_cancel(idx, rng, tier):
    from .. import vloop
    from ..runner import short_hash
    d = {'target': ('task', 'future', 'stream')[idx % 3], 'link': rng.choice(ANY_LINK),
         'work': rng.choice([0.5, 2.0, 10.0]), 'cancel_after': rng.choice([0.01, 0.1, 0.3]), 'n': rng.choice([1, 3, 100])}
    obs = vloop.run(_routed_cancel(rng, d))
    wit = []
    st = {'routed_cancels_judged': 0}

    def bad(clause, **kw):
        wit.append({'clause': clause, 'detail': dict(kw, case=d, observed=obs)})

    if not obs['handler_ran']:
        return {'inconclusive': 'routed handler never ran'}
    st['routed_cancels_judged'] = 1
    if len(obs['cancel_frames']) != 1:
        bad('not-exactly-one-cancel-frame', frames=obs['cancel_frames'])
    if not obs.get('producer_cancelled'):
        bad('routed-producer-not-cancelled-by-cancel')
    if obs.get('producer_finished'):
        bad('routed-producer-ran-to-the-end-after-cancel')
    if obs.get('produced_after_cancel', 0) > 1:
        bad('routed-publisher-kept-producing-after-cancel', produced_after=obs['produced_after_cancel'])
    if obs['other'] != b'late-other':
        bad('other-stream-disturbed-by-cancel', got=str(obs['other'])[:80])
    if obs['later'] != b'quick-answer':
        bad('later-request-disturbed-by-cancel', got=str(obs['later'])[:80])
    return {'evals': 1, 'nt_keys': [short_hash(d)], 'deciding': st, 'witnesses': wit[:3], 'sample': d,
            'counts': {'routed_cancel_' + d['target']: 1}}


def classify(w):
    return None
