"""C19 Routed dispatch is exact and the authentication gate cannot be bypassed."""
import asyncio
from datetime import timedelta

from .. import assert_repo
from ..links import ANY_LINK

ID = 'C19'
LEVEL = 'exploration'
RULE = ('a case = one route table (for each of the five routable interaction types independently: not registered / route '
        '"a" / routes "a" and "b"; an unknown-route handler present or absent per type; handler signatures drawn from (), '
        '(payload), (p: Payload), (composite_metadata), (cm: CompositeMetadata), (payload, composite_metadata)) with or '
        'without an authentication verifier, served by a real server to a real client; per case a list of requests: type '
        'x route in {a, b, zzz, empty tag list, no routing entry} x authentication in {none, rejected simple, rejected '
        'bearer, accepted simple, accepted bearer} x position of the routing entry (first, after auth, after a custom '
        'entry, two routing entries, two tags), each followed by a bystander request that must succeed. A 15-line '
        'reference dispatcher predicts which recording coroutine runs and what the requester gets. Tables are sampled '
        'in the quick tier and enumerated completely in the thorough tier. non-trivial = a request whose table has >= 2 '
        'handlers for its type; distinct by (table, request).')
ASSUMPTIONS = ['route names are ASCII; the verifier accepts simple("user","pass") and bearer("good") only',
               'for fire-and-forget and metadata-push "fails on that request alone" means: no handler runs and the '
               'connection keeps serving']
DECIDING_REQUIRED = ('requests_dispatched', 'handlers_run_checked', 'gate_rejections_checked', 'unknown_route_handlers_used',
                     'bystanders_checked', 'typed_parameters_checked')
EXHAUSTIVE_GENS = ()
BUDGET_S = {'quick': 100, 'thorough': 2400}

TYPES = ('rr', 'stream', 'channel', 'fnf', 'push')
SIGS = ('()', '(payload)', '(p: Payload)', '(composite_metadata)', '(cm: CompositeMetadata)', '(payload, composite_metadata)',
        '(dto: Dto)', '(dto: Dto, payload)', '(payload, dto: Dto, cm: CompositeMetadata, p2: Payload)')


class Dto:
    """What the router's payload_deserializer makes of a payload for a parameter annotated with this class."""

    def __init__(self, payload):
        self.data = bytes(getattr(payload, 'data', None) or b'')
        self.seen_type = type(payload).__name__


class NotAsked:
    """What the deserializer returns when it is asked for anything but Dto: a parameter without annotation, or
    annotated Payload / CompositeMetadata, must never be run through it."""

    def __init__(self, cls):
        self.cls = repr(cls)


def _deserializer(cls, payload):
    return cls(payload) if cls is Dto else NotAsked(cls)
ROUTES = ('a', 'b', 'zzz', 'empty-tags', 'no-routing-entry')
AUTHS = ('none', 'rejected-simple', 'rejected-bearer', 'accepted-simple', 'accepted-bearer')
POSITIONS = ('first', 'after-auth', 'after-custom', 'two-routing-entries', 'two-tags')


def all_tables():
    out = []
    for code in range(3 ** 5 * 2 ** 5 * 2):
        c = code
        verifier = c % 2
        c //= 2
        reg = []
        for _ in TYPES:
            reg.append(c % 3)
            c //= 3
        unk = []
        for _ in TYPES:
            unk.append(c % 2)
            c //= 2
        out.append((tuple(reg), tuple(unk), bool(verifier)))
    return out


def plan(tier, seed):
    n = 2500 if tier == 'quick' else len(all_tables())
    return [('tables', n)]


RAISES = {'KeyError': KeyError, 'LookupError': LookupError, 'RuntimeError': RuntimeError, 'ValueError': ValueError}


def _handler(kind, name, sig, log, raises=None):
    """An async route function with the given signature that records its invocation and arguments."""
    from rsocket.payload import Payload
    from rsocket.extensions.composite_metadata import CompositeMetadata
    from rsocket.helpers import create_future
    from rsocket.streams.stream_from_generator import StreamFromGenerator

    def result():
        if kind == 'rr':
            return create_future(Payload(name.encode()))
        if kind == 'stream':
            return StreamFromGenerator(lambda: iter([(Payload(name.encode()), True)]))
        if kind == 'channel':
            return StreamFromGenerator(lambda: iter([(Payload(name.encode()), True)])), None
        return None

    def rec(**kw):
        log.append((name, kw))
        if raises:
            # application code failing inside a registered handler (e.g. a failed dict lookup): this request alone fails
            raise RAISES[raises]('app failure in %s' % name)

    if sig == '()':
        async def h():
            rec()
            return result()
    elif sig == '(payload)':
        async def h(payload):
            rec(payload=payload)
            return result()
    elif sig == '(p: Payload)':
        async def h(p: Payload):
            rec(payload=p)
            return result()
    elif sig == '(composite_metadata)':
        async def h(composite_metadata):
            rec(cm=composite_metadata)
            return result()
    elif sig == '(cm: CompositeMetadata)':
        async def h(cm: CompositeMetadata):
            rec(cm=cm)
            return result()
    elif sig == '(dto: Dto)':
        async def h(dto: Dto):
            rec(dto=dto)
            return result()
    elif sig == '(dto: Dto, payload)':
        async def h(dto: Dto, payload):
            rec(dto=dto, payload=payload)
            return result()
    elif sig == '(payload, dto: Dto, cm: CompositeMetadata, p2: Payload)':
        async def h(payload, dto: Dto, cm: CompositeMetadata, p2: Payload):
            rec(payload=payload, dto=dto, cm=cm, payload2=p2)
            return result()
    else:
        async def h(payload, composite_metadata):
            rec(payload=payload, cm=composite_metadata)
            return result()
    return h


def build_router(table, sigs, log):
    from rsocket.routing.request_router import RequestRouter
    reg, unk, verifier = table
    router = RequestRouter(payload_deserializer=_deserializer)
    deco = {'rr': (router.response, router.response_unknown), 'stream': (router.stream, router.stream_unknown),
            'channel': (router.channel, router.channel_unknown),
            'fnf': (router.fire_and_forget, router.fire_and_forget_unknown),
            'push': (router.metadata_push, router.metadata_push_unknown)}
    names = {}
    for i, t in enumerate(TYPES):
        names[t] = {}
        routes = ['a'][:reg[i]] if reg[i] < 2 else ['a', 'b']
        for r in routes:
            nm = '%s:%s' % (t, r)
            deco[t][0](r)(_handler(t, nm, sigs[(t, r)], log, sigs.get((t, r, 'raises'))))
            names[t][r] = nm
        if unk[i]:
            nm = '%s:unknown' % t
            deco[t][1]()(_handler(t, nm, sigs[(t, 'unknown')], log))
            names[t]['unknown'] = nm
    # a route every type serves, for the bystander
    for t in TYPES:
        nm = '%s:bystander' % t
        deco[t][0]('bystander')(_handler(t, nm, '(payload)', log))
    return router, names


def reference(table, names, req):
    """Expected (handler name or None, outcome) for a request."""
    reg, unk, verifier = table
    t, route, auth, pos = req
    if route == 'no-routing-entry':
        return None, 'error'
    if route == 'empty-tags':
        return None, 'error'
    if verifier:
        if auth == 'none' or auth.startswith('rejected'):
            return None, 'error'
    first = route
    h = names[t].get(first) or names[t].get('unknown')
    if h is None:
        return None, 'error'
    return h, 'ok'


def build_metadata(req):
    from rsocket.extensions.helpers import composite, route as mk_route, authenticate_simple, authenticate_bearer, \
        metadata_item
    from rsocket.extensions.routing import RoutingMetadata
    t, route, auth, pos = req
    items = []
    a = None
    if auth == 'rejected-simple':
        a = authenticate_simple('user', 'wrong')
    elif auth == 'rejected-bearer':
        a = authenticate_bearer('bad')
    elif auth == 'accepted-simple':
        a = authenticate_simple('user', 'pass')
    elif auth == 'accepted-bearer':
        a = authenticate_bearer('good')
    r = None
    if route == 'empty-tags':
        r = [RoutingMetadata([])]
    elif route != 'no-routing-entry':
        if pos == 'two-routing-entries':
            r = [mk_route(route), mk_route('b' if route != 'b' else 'a')]
        elif pos == 'two-tags':
            r = [mk_route(route, 'b' if route != 'b' else 'a')]
        else:
            r = [mk_route(route)]
    custom = metadata_item(b'custom-body', b'application/x.custom')
    if pos == 'after-auth' and a is not None:
        items = [a] + (r or [])
    elif pos == 'after-custom':
        items = [custom] + (r or []) + ([a] if a is not None else [])
    else:
        items = (r or []) + ([a] if a is not None else [])
    return composite(*items)


async def _run(rng, table, sigs, requests, link_kind):
    from rsocket.payload import Payload
    from rsocket.rsocket_server import RSocketServer
    from rsocket.rsocket_client import RSocketClient
    from rsocket.routing.routing_request_handler import RoutingRequestHandler
    from rsocket.extensions.mimetypes import WellKnownMimeTypes
    from rsocket.extensions.helpers import composite, route as mk_route, authenticate_simple
    from rsocket.extensions.authentication import AuthenticationSimple, AuthenticationBearer
    from rsocket.awaitable.awaitable_rsocket import AwaitableRSocket
    from .. import links
    log = []
    router, names = build_router(table, sigs, log)
    verifier_calls = []

    async def verifier(route, authentication):
        verifier_calls.append(route)
        if isinstance(authentication, AuthenticationSimple):
            if (bytes(authentication.username), bytes(authentication.password)) != (b'user', b'pass'):
                raise Exception('bad credentials')
        elif isinstance(authentication, AuthenticationBearer):
            if bytes(authentication.token) != b'good':
                raise Exception('bad token')
        else:
            raise Exception('unsupported')

    link = links.make_link(link_kind, rng)
    conn_errors = []
    link.tap.listeners.append(lambda ev: conn_errors.append(ev[3].get('data')) if (
        ev[1] == 's' and ev[2] == 'send' and ev[3].get('type') == 'ERROR' and ev[3].get('sid', 0) == 0) else None)
    server = RSocketServer(link.transports['s'], handler_factory=lambda: RoutingRequestHandler(
        router, verifier if table[2] else None))

    async def provider():
        yield link.transports['c']

    client = RSocketClient(provider(), metadata_encoding=WellKnownMimeTypes.MESSAGE_RSOCKET_COMPOSITE_METADATA,
                           keep_alive_period=timedelta(seconds=1e6), max_lifetime_period=timedelta(seconds=2e6))
    await client.connect()
    aw = AwaitableRSocket(client)
    results = []

    async def call(t, md, data):
        try:
            if t == 'rr':
                r = await asyncio.wait_for(aw.request_response(Payload(data, md)), 10)
                return ('ok', [bytes(r.data or b'')])
            if t == 'stream':
                r = await asyncio.wait_for(aw.request_stream(Payload(data, md)), 10)
                return ('ok', [bytes(x.data or b'') for x in r if x.data])
            if t == 'channel':
                r = await asyncio.wait_for(aw.request_channel(Payload(data, md)), 10)
                return ('ok', [bytes(x.data or b'') for x in r if x.data])
            if t == 'fnf':
                await asyncio.wait_for(aw.fire_and_forget(Payload(data, md)), 10)
                await asyncio.sleep(0.01)
                return ('sent', None)
            await asyncio.wait_for(aw.metadata_push(md), 10)
            await asyncio.sleep(0.01)
            return ('sent', None)
        except asyncio.TimeoutError:
            return ('pending', None)
        except Exception as e:
            return ('error', '%s: %s' % (type(e).__name__, str(e)[:60]))

    by_auth = [authenticate_simple('user', 'pass')] if table[2] else []
    for i, req in enumerate(requests):
        md = build_metadata(req)
        data = b'data-%d' % i
        before = len(log)
        vbefore = len(verifier_calls)
        ebefore = len(conn_errors)
        out = await call(req[0], md, data)
        ran = log[before:]
        conn_err = [bytes(x or b'')[:60] for x in conn_errors[ebefore:]]
        # bystander
        bt = TYPES[i % 5]
        b2 = len(log)
        bout = await call(bt, composite(mk_route('bystander'), *by_auth), b'by')
        bran = [n for n, _ in log[b2:]]
        results.append({'req': req, 'out': out, 'ran': ran, 'md': bytes(md), 'data': data, 'bystander': (bt, bout, bran),
                        'verifier_called': len(verifier_calls) > vbefore, 'connection_errors': conn_err})
    alive = None
    try:
        alive = all(getattr(server, n) is not None and not getattr(server, n).done()
                    for n in ('_sender_task', '_receiver_task'))
    except AttributeError:
        pass
    await client.close()
    await server.close()
    link.stop()
    return results, names, alive


def judge(table, names, results, alive, sigs=None):
    wit = []
    st = {'requests_dispatched': 0, 'handlers_run_checked': 0, 'gate_rejections_checked': 0,
          'unknown_route_handlers_used': 0, 'bystanders_checked': 0}
    nt = []

    def bad(clause, r, **kw):
        wit.append({'clause': clause, 'detail': dict(kw, table={'registered': table[0], 'unknown_handlers': table[1],
                                                              'verifier': table[2]},
                                                     request=list(r['req']), outcome=list(r['out']),
                                                     ran=[n for n, _ in r['ran']])})

    for r in results:
        if r.get('connection_errors'):
            # "fails with an error on that request alone": an ERROR on stream 0 concerns the whole connection
            bad('connection-level-error-for-one-request', r, errors=[repr(x) for x in r['connection_errors']])
        req = r['req']
        t = req[0]
        st['requests_dispatched'] += 1
        want, outcome = reference(table, names, req)
        ran = [n for n, _ in r['ran']]
        gate_closed = table[2] and (req[2] == 'none' or req[2].startswith('rejected')) \
            and req[1] not in ('empty-tags', 'no-routing-entry')
        if gate_closed:
            st['gate_rejections_checked'] += 1
            if ran:
                bad('handler-ran-without-valid-authentication', r)
                continue
        if want is None:
            if ran:
                bad('handler-ran-for-request-that-must-fail', r)
            if t in ('rr', 'stream', 'channel') and r['out'][0] != 'error':
                bad('failing-request-not-failed', r)
            if t in ('fnf', 'push') and r['out'][0] != 'sent':
                bad('fire-and-forget-or-push-disturbed', r)
        else:
            st['handlers_run_checked'] += 1
            if want.endswith(':unknown'):
                st['unknown_route_handlers_used'] += 1
            if ran != [want]:
                bad('wrong-handler-ran', r, expected=want)
                continue
            raiser = (sigs or {}).get((t, want.split(':')[1], 'raises'))
            if raiser:
                st['raising_handlers_checked'] = st.get('raising_handlers_checked', 0) + 1
                if t in ('rr', 'stream', 'channel') and r['out'][0] != 'error':
                    bad('request-whose-handler-raised-did-not-fail', r, raised=raiser)
            elif t in ('rr', 'stream', 'channel') and r['out'] != ('ok', [want.encode()]):
                bad('requester-did-not-get-its-handlers-answer', r, expected=want)
            # declared parameters
            kw = r['ran'][0][1]
            if 'payload' in kw:
                p = kw['payload']
                exp_data = r['data'] if t != 'push' else b''
                if bytes(getattr(p, 'data', None) or b'') != exp_data or bytes(getattr(p, 'metadata', None) or b'') != r['md']:
                    bad('payload-parameter-differs', r)
            from rsocket.payload import Payload as _P
            for key in ('payload', 'payload2'):
                if key in kw and not isinstance(kw[key], _P):
                    bad('payload-parameter-differs', r, parameter=key, got_type=type(kw[key]).__name__)
            if 'payload2' in kw:
                p2 = kw['payload2']
                if bytes(getattr(p2, 'data', None) or b'') != (r['data'] if t != 'push' else b''):
                    bad('payload-parameter-differs', r, parameter='p2')
            if 'dto' in kw:
                st['typed_parameters_checked'] = st.get('typed_parameters_checked', 0) + 1
                dto = kw['dto']
                if not isinstance(dto, Dto) or dto.seen_type != 'Payload' or dto.data != (r['data'] if t != 'push' else b''):
                    bad('typed-parameter-differs', r, got_type=type(dto).__name__,
                        deserializer_was_given=getattr(dto, 'seen_type', None))
            if 'cm' in kw:
                cm = kw['cm']
                try:
                    ok = bytes(cm.serialize()) == r['md']
                except Exception:
                    ok = False
                if not ok:
                    bad('composite-metadata-parameter-differs', r)
        bt, bout, bran = r['bystander']
        st['bystanders_checked'] += 1
        if bran != ['%s:bystander' % bt] or (bt in ('rr', 'stream', 'channel') and bout != ('ok', [('%s:bystander' % bt).encode()])):
            bad('bystander-request-not-served', r, bystander=[bt, list(bout), bran])
        if len(names[t]) >= 2:
            nt.append('%s|%s|%s|%s' % (table, req, 0, 0))
    if alive is False:
        wit.append({'clause': 'server-task-ended', 'detail': {'table': table}})
    return wit, st, nt


def gen_requests(rng, n):
    reqs = []
    for _ in range(n):
        reqs.append((rng.choice(TYPES), rng.choice(ROUTES), rng.choice(AUTHS), rng.choice(POSITIONS)))
    return reqs


def run_case(gen, idx, rng, tier):
    assert_repo()
    from .. import vloop
    from ..runner import short_hash
    if tier == 'quick':
        table = (tuple(rng.randrange(3) for _ in TYPES), tuple(rng.randrange(2) for _ in TYPES), rng.random() < 0.6)
        nreq = 24
    else:
        table = all_tables()[idx]
        nreq = 40
    sigs = {}
    for t in TYPES:
        for r in ('a', 'b', 'unknown'):
            sigs[(t, r)] = rng.choice(SIGS)
    for t in TYPES:
        if rng.random() < 0.25:
            sigs[(t, 'b', 'raises')] = rng.choice(sorted(RAISES))
    requests = gen_requests(rng, nreq)
    results, names, alive = vloop.run(_run(rng, table, sigs, requests, rng.choice(ANY_LINK)))
    if alive is None:
        return {'inconclusive': 'task attributes not found'}
    wit, st, nt = judge(table, names, results, alive, sigs)
    seen = set()
    ws = []
    for w in wit:
        if w['clause'] not in seen:
            seen.add(w['clause'])
            w['detail']['signatures'] = {':'.join(k): v for k, v in sigs.items()}
            ws.append(w)
    return {'evals': len(results), 'nt_keys': [short_hash(x) for x in nt], 'deciding': st, 'witnesses': ws[:4],
            'sample': {'table': {'registered(0=none,1=a,2=a+b)': dict(zip(TYPES, table[0])),
                                 'unknown_route_handler': dict(zip(TYPES, table[1])), 'verifier': table[2]},
                       'requests': [list(r) for r in requests[:6]]}}


def classify(w):
    return None
