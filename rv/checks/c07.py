"""C07 Every interaction terminates at most once at the API."""
from .. import assert_repo

ID = 'C07'
LEVEL = 'exploration'
RULE = ('script: every history (sequence of protocol-legal peer frames, local application actions incl. repeated and '
        'late request()/cancel(), publisher/future signals, and a connection end: local close, EOF, transport error) up '
        'to the depth bound, for request-response / request-stream / request-channel x {requester, responder} role of '
        'the real endpoint x {client, server} endpoint, each under three spacings (settle between steps, back-to-back '
        'in one loop turn, tick-spaced), alternating byte-stream and message framing; enumerated without repetition. '
        'mix: seeded hostile E-mix runs with a connection cut at a random instant. non-trivial = a history with a '
        'terminal event followed by at least one further step (or a mix run with a cut while streams were open).')
ASSUMPTIONS = ['histories are generated from an abstract legality model of the peer (no PAYLOAD after its own completion, '
               'nothing after its own ERROR / requester CANCEL); frames that cross on the wire stay legal',
               'futures created by rsocket.helpers.create_future are observed through a recording Future subclass '
               'installed by the harness event loop']
EXHAUSTIVE_GENS = ('script',)
DECIDING_REQUIRED = ('subscriber_logs_checked', 'futures_checked', 'callbacks_observed', 'histories_with_connection_end')
BUDGET_S = {'quick': 100, 'thorough': 2400}

DEPTH = {'quick': {'rr': 5, 'stream': 4, 'channel': 3}, 'thorough': {'rr': 6, 'stream': 5, 'channel': 4}}
BATCH = 60
TERMINALS = ('on_next_complete', 'on_complete', 'on_error')


def script_cases(tier, depth=None):
    """List of (model, role, endpoint, spacing, start, count) batches over the enumerated histories."""
    from .. import script
    depth = depth or DEPTH[tier]
    out = []
    for m in script.MODELS:
        for r in script.ROLES:
            n = len(histories(m, r, depth[m]))
            for e in script.ENDPOINTS:
                for sp in script.SPACINGS:
                    for start in range(0, n, BATCH):
                        out.append((m, r, e, sp, start, min(BATCH, n - start)))
    return out


_HIST = {}


def histories(m, r, d):
    from .. import script
    k = (m, r, d)
    if k not in _HIST:
        _HIST[k] = script.enumerate_histories(m, r, d)
    return _HIST[k]


def plan(tier, seed):
    return [('script', len(script_cases(tier))), ('mix', 2500 if tier == 'quick' else 40000)]


def check_sub_log(log):
    """Returns None or (clause, index)."""
    if not log:
        return None
    if log[0] != 'on_subscribe':
        return ('callback-before-on_subscribe', 0)
    term = None
    for i, x in enumerate(log[1:], 1):
        if x == 'on_subscribe':
            return ('second-on_subscribe', i)
        if term is not None:
            return ('callback-after-terminal', i)
        if x in TERMINALS:
            term = i
    return None


def check_future(fut, must_be_done):
    if fut is None:
        return None
    log = getattr(fut, 'rv_log', None)
    if log is None:
        return ('future-not-observable', None)
    for what, was_done, arg in log:
        if was_done and what in ('set_result', 'set_exception'):
            return ('future-resolved-twice', [list(x) for x in log])
    if must_be_done and not fut.done():
        return ('future-left-pending', [list(x) for x in log])
    return None


def monitor_script(res):
    from ..pair import trace_excerpt
    wit = []
    st = {'subscriber_logs_checked': 0, 'futures_checked': 0, 'callbacks_observed': 0}
    ctx = {'model': res.model, 'role': res.role, 'endpoint': res.endpoint, 'spacing': res.spacing,
           'history': list(res.history), 'skipped_steps': res.skipped, 'framing': res.rw.link_kind}
    for name, sub in (('requester-sub', res.sub), ('responder-sub', res.up_sub)):
        if sub is None:
            continue
        st['subscriber_logs_checked'] += 1
        st['callbacks_observed'] += len(sub.log)
        v = check_sub_log(sub.log)
        if v:
            wit.append({'clause': v[0], 'detail': dict(ctx, subscriber=name, log=sub.log, at=v[1],
                                                        trace=trace_excerpt(res.world, 70))})
    if res.future is not None:
        st['futures_checked'] += 1
        executed = [s for s in res.history if s not in res.skipped]
        ended = any(s in ('p:next_complete', 'p:complete', 'p:error', 'l:fut_cancel') or s.startswith('c:')
                    for s in executed)
        v = check_future(res.future, ended)
        if v:
            wit.append({'clause': v[0], 'detail': dict(ctx, future_log=v[1], trace=trace_excerpt(res.world, 70))})
    return wit, st


def _nontrivial_history(h):
    term = ('p:next_complete', 'p:complete', 'p:error', 'p:cancel', 'l:cancel', 'l:fut_cancel', 'l:fut_result',
            'l:fut_exception', 'l:pub_complete', 'l:pub_error', 'l:pub_next_complete', 'c:close', 'c:eof', 'c:error')
    for i, s in enumerate(h[:-1]):
        if s in term:
            return True
    return False


async def _mix(rng, cfg, specs, cut):
    import asyncio
    from ..pair import Pair
    p = Pair(rng, cfg)
    p.driver.horizon = 1.0e5
    await p.start()

    async def cutter():
        await asyncio.sleep(cut['at'])
        if cut['how'] == 'close-c':
            await p.client.close()
        elif cut['how'] == 'close-s':
            await p.server.close()
        else:
            p.link.cut(cut['how'])

    ct = asyncio.ensure_future(cutter())
    await p.run_specs(specs)
    await ct
    futs = list(asyncio.get_event_loop().rec_futures)
    await p.close()
    return p, futs


def run_case(gen, idx, rng, tier):
    assert_repo()
    from .. import script, vloop, mixgen
    from ..runner import short_hash
    if gen == 'script':
        m, r, e, sp, start, count = script_cases(tier)[idx]
        hs = histories(m, r, DEPTH[tier][m])[start:start + count]
        wits = []
        st = {'subscriber_logs_checked': 0, 'futures_checked': 0, 'callbacks_observed': 0,
              'histories_with_connection_end': 0}
        nt = 0
        sigs = []
        for j, h in enumerate(hs):
            link = 'bytes' if (start + j) % 2 == 0 else 'messages'
            res = script.execute(m, r, e, h, sp, rng, link_kind=link)
            w, s = monitor_script(res)
            for k, v in s.items():
                st[k] += v
            if any(x.startswith('c:') for x in h):
                st['histories_with_connection_end'] += 1
            if _nontrivial_history(h):
                nt += 1
            sigs.append(res.world.signature())
            wits += w
        seen = set()
        ws = []
        for w in wits:
            k = (w['clause'], classify(w))
            if k not in seen:
                seen.add(k)
                ws.append(w)
        return {'evals': len(hs), 'nt_count': nt, 'sigs': sigs, 'deciding': st, 'witnesses': ws,
                'counts': {'histories_%s_%s' % (m, r): len(hs)},
                'sample': {'model': m, 'role_of_real_endpoint': r, 'endpoint': e, 'spacing': sp,
                           'first_history': list(hs[0]), 'last_history': list(hs[-1]), 'histories': len(hs)}}
    # mix
    from . import c08
    cfg, specs = c08.gen_case(rng, tier)
    from ..apps import EXC_KINDS
    cfg['exc_kind'] = rng.choice(EXC_KINDS)
    for spec in specs:
        # application callbacks that raise must not make the library signal twice either (the connection is cut and,
        # afterwards, closed explicitly)
        if spec['model'] in ('stream', 'channel') and rng.random() < 0.25:
            spec['sub_raise_in'] = (rng.choice(['on_error', 'on_error', 'on_next', 'on_complete']),)
    cut = {'at': rng.choice([0.0, 1e-6, 1e-4, 1e-3, 0.01, 0.05, rng.random() * 0.2]),
           'how': rng.choice(['eof', 'error', 'close-c', 'close-s'])}
    if cfg['link'] == 'messages' and cut['how'] == 'eof':
        cut['how'] = 'error'
    p, futs = vloop.run(_mix(rng, cfg, specs, cut))
    world = p.world
    wit = []
    st = {'subscriber_logs_checked': 0, 'futures_checked': 0, 'callbacks_observed': 0,
          'histories_with_connection_end': 1}
    from ..pair import trace_excerpt
    open_at_cut = 0
    for spec in specs:
        inter = world.inter[spec['iid']]
        for key in ('subscriber', 'up_subscriber'):
            sub = inter.get(key)
            if sub is None:
                continue
            st['subscriber_logs_checked'] += 1
            st['callbacks_observed'] += len(sub.log)
            if 'on_error' in sub.log:
                open_at_cut += 1
            v = check_sub_log(sub.log)
            if v:
                wit.append({'clause': v[0], 'detail': {'iid': spec['iid'], 'subscriber': key, 'log': sub.log, 'at': v[1],
                                                        'cut': cut, 'trace': trace_excerpt(world, 70, spec['iid'])}})
        fut = inter.get('future')
        if fut is not None:
            st['futures_checked'] += 1
            # a request issued after the connection had already ended is not 'pending at that moment': the
            # statement says nothing about it, so only at-most-once is judged for those
            call = next((e['i'] for e in world.events if e['kind'] == 'call' and e.get('iid') == spec['iid']), None)
            closed = next((e['i'] for e in world.events if e['kind'] == 'on_close'
                           and e.get('who') == spec['side'] + '-handler'), None)
            before = call is not None and (closed is None or call < closed)
            v = check_future(fut, before)
            if v:
                wit.append({'clause': v[0], 'detail': {'iid': spec['iid'], 'future_log': v[1], 'cut': cut,
                                                        'trace': trace_excerpt(world, 70, spec['iid'])}})
    desc = {'config': mixgen.describe_cfg(cfg), 'interactions': specs, 'cut': cut}
    seen = set()
    ws = []
    for w in wit:
        k = (w['clause'], classify(w))
        if k not in seen:
            seen.add(k)
            w['detail']['config'] = desc['config']
            w['detail']['interactions'] = specs
            ws.append(w)
    return {'evals': 1, 'nt_keys': [short_hash(desc)] if open_at_cut else [], 'sigs': [world.signature()],
            'deciding': st, 'witnesses': ws, 'counts': {'mix_runs': 1}, 'sample': desc}


def classify(w):
    return None
