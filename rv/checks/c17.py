"""C17 Reconnect yields a fresh, working connection."""
import asyncio
from datetime import timedelta

from .. import assert_repo

ID = 'C17'
LEVEL = 'exploration'
RULE = ('a real client whose transport provider hands out a fresh simulated link to a fresh real server on every request; '
        'seeded sequences of 1..3 connection endings (server EOF, transport error, keepalive timeout with a silent '
        'server, explicit reconnect while healthy) with reconnect() called from on_close, from on_keepalive_timeout or '
        'from an unrelated task at a seeded instant, with request-response / stream / channel interactions pending on '
        'the old connection; further endings: the link dying inside a fragment run of a fragmenting server, and a client '
        'whose writes stop completing (frames pile up in its send queue) before an explicit reconnect; a channel whose '
        'requester-side publisher keeps producing; in every fifth case a lease-honouring client against servers that '
        'grant a lease after their own delay. After each reconnect: old transport closed, old requests completed or failed, provider '
        'asked again, SETUP first on the new transport, first new stream id 1, a respond-flagged KEEPALIVE within one '
        'period, every frame on the new transport belongs to a stream opened on it, and a request issued afterwards '
        'answered byte for byte. non-trivial = a case with >= 1 pending interaction at the '
        'time of the reconnect; distinct by case digest.')
ASSUMPTIONS = ['"served" is restated as answered within 30 virtual seconds after the reconnect',
               'the keepalive period is 0.5 s and the maximum lifetime 2 s in timeout cases; eps = 10 ms']
DECIDING_REQUIRED = ('reconnects_checked', 'reconnects_after_keepalive_timeout', 'pending_requests_at_reconnect',
                     'post_reconnect_requests_served')
BUDGET_S = {'quick': 90, 'thorough': 1500}
CAUSES = ['server-eof', 'transport-error', 'keepalive-timeout', 'explicit', 'cut-mid-frame', 'stalled-writer']


def plan(tier, seed):
    return [('reconnect', 4000 if tier == 'quick' else 40000)]


async def _run(rng, desc):
    from rsocket.rsocket_client import RSocketClient
    from rsocket.rsocket_server import RSocketServer
    from .. import links
    from ..apps import World, ScriptedHandler, make_payload, pkey, DIR_REQUEST, DIR_RESPONSE, RecSubscriber
    from ..pair import Driver
    world = World()
    driver = Driver(world, 30.0)
    loop = asyncio.get_event_loop()
    conns = []          # dicts: link, server, handler
    P, L = desc['P'], desc['L']

    def new_conn():
        i = len(conns)
        kc = links.Knobs(rng)
        kc.connect = tuple(desc.get('connect', ('none',)))       # transports whose connect() suspends
        link = links.make_link(desc['link'], rng, kc, None)
        link.tap.listeners.append(lambda ev, i=i: world.events.append(
            {'t': ev[0], 'kind': 'wire', 'ep': ev[1], 'dir': ev[2], 'f': ev[3], 'conn': i, 'i': len(world.events)}))
        h = ScriptedHandler(world, 's', driver)
        skw = {}
        if desc.get('lease'):
            from .c14 import ScriptedLeasePublisher
            wait, n_, ttl_ = desc['lease']
            if isinstance(wait, (list, tuple)):
                wait = wait[i % len(wait)]          # a different lease delay on every connection
            skw['lease_publisher'] = ScriptedLeasePublisher([(wait, n_, ttl_)])
            if desc.get('two_way_lease'):
                skw['honor_lease'] = True       # the server's own requests wait for the client's LEASE
        server = RSocketServer(link.transports['s'], handler_factory=lambda: h, fragment_size_bytes=desc.get('frag_s'), **skw)
        c = {'link': link, 'server': server, 'handler': h, 'index': i}
        conns.append(c)
        world.log('provider_asked', conn=i)
        return c

    async def provider():
        from ..apps import _pace
        while len(conns) < 6:
            await _pace(tuple(desc.get('provider_wait', ('none',))))     # e.g. asyncio.open_connection suspends
            c = new_conn()
            yield c['link'].transports['c']

    hc = ScriptedHandler(world, 'c', driver)
    ckw = {}
    if desc.get('lease') and desc.get('two_way_lease'):
        # the client grants leases too: its publisher has to be subscribed again for every new connection
        from .c14 import ScriptedLeasePublisher
        ckw['lease_publisher'] = ScriptedLeasePublisher([(desc['two_way_lease'], 100, 60000)])
    client = RSocketClient(provider(), handler_factory=lambda: hc, keep_alive_period=timedelta(seconds=P),
                           max_lifetime_period=timedelta(seconds=L), honor_lease=bool(desc.get('lease')), **ckw)
    where = desc['reconnect_from']

    async def on_close_hook(rs):
        if desc.get('on_close_delay'):
            await asyncio.sleep(desc['on_close_delay'])       # an application whose close notification takes a while
        if state['trigger'] == 'on_close' and state['allow']:
            state['trigger'] = None
            world.log('reconnect_called', frm='on_close')
            await rs.reconnect()

    async def on_timeout_hook(rs):
        if state['trigger'] == 'on_keepalive_timeout' and state['allow']:
            # a keepalive timeout does not by itself close the connection: the application asks for the reconnect
            state['trigger'] = None
            world.log('reconnect_called', frm='on_keepalive_timeout')
            await rs.reconnect()

    state = {'allow': True, 'trigger': None}
    hc.on_close_hook = on_close_hook
    hc.on_keepalive_timeout_hook = on_timeout_hook
    await client.connect()
    iid = [0]
    rounds = []

    def next_iid():
        iid[0] += 1
        return iid[0]

    async def issue_pending(kinds, outcome='never'):
        out = []
        for kind in kinds:
            i = next_iid()
            p = make_payload(i, DIR_REQUEST, 0, 16, 0)
            world.inter[i] = {}
            if kind == 'rr':
                world.specs[i] = {'iid': i, 'model': 'rr', 'side': 'c', 'resp': {'size': (5, 0), 'outcome': outcome}}
                fut = client.request_response(p)
                out.append(('rr', i, fut))
            else:
                model = 'channel' if kind.startswith('channel') else kind
                big = (200, 0) if desc.get('frag_s') else (10, 0)
                world.specs[i] = {'iid': i, 'model': model, 'side': 'c',
                                  'resp': {'elems': [big] * 6, 'terminal': 'never', 'pacing': ('timed', 0.05),
                                           'source': 'rec', 'up_n0': 50 if kind == 'channel-up' else 2}, 'up': None}
                sub = RecSubscriber(world, i, DIR_RESPONSE, 'sub%d' % i, policy=('refill', 2, 0), initial_granted=2)
                if kind == 'stream':
                    h = client.request_stream(p)
                elif kind == 'channel-up':
                    # a channel whose requester-side publisher keeps producing: its sending direction stays open and
                    # its frames are what a stalled writer leaves in the send queue
                    from ..apps import RecPublisher, DIR_CHANNEL_UP
                    up = RecPublisher(world, i, DIR_CHANNEL_UP, 'pub%d' % i, [(30, 0)] * 40, 'never', ('timed', 0.02))
                    h = client.request_channel(p, up)
                else:
                    h = client.request_channel(p)
                h.initial_request_n(2).subscribe(sub)
                out.append((model, i, sub))
        return out

    for rnd, step in enumerate(desc['rounds']):
        cur = conns[-1]
        nconn = len(conns)
        pending = await issue_pending(step['pending'])
        await asyncio.sleep(step['before'])
        cause = step['cause']
        during = []
        if cause in ('explicit', 'stalled-writer') or where == 'task':
            trigger = 'task'
        elif cause == 'keepalive-timeout':
            trigger = 'on_keepalive_timeout'
        else:
            trigger = 'on_close' if where == 'on_close' else 'task'
        state['trigger'] = trigger
        world.log('cause', cause=cause, conn=cur['index'], trigger=trigger)
        t_cause = loop.time()
        if cause == 'server-eof':
            await cur['server'].close()
        elif cause == 'transport-error':
            cur['link'].cut('error')
        elif cause == 'cut-mid-frame':
            # the link dies a little further into the server's byte / message stream: inside a fragment run when the
            # server is sending fragmented elements
            k = step.get('cut_in', 1)
            cur['link'].cut_after('s', cur['link'].delivered('s') + (k if desc['link'] != 'bytes' else 20 * k), 'error')
            await asyncio.sleep(0.3)
            if not cur['link'].broken:
                cur['link'].cut('error')
        elif cause == 'stalled-writer':
            # the client's writes stop completing (peer not reading): frames pile up in its send queue; then the
            # application asks for a reconnect
            cur['link'].knobs['c'].drain = ('virtual', 1.0e4)
            await asyncio.sleep(0.5)
        elif cause == 'keepalive-timeout':
            # the server goes silent: nothing it sends is delivered any more
            if desc['link'] == 'bytes':
                cur['link'].pipes['s'].task.cancel()
            else:
                cur['link'].tasks['s'].cancel()
        if trigger == 'task':
            await asyncio.sleep(step['task_delay'])
            world.log('reconnect_called', frm='task')
            await client.reconnect()
            if step.get('during'):
                # requests issued while the client is reconnecting (the provider or connect() may be suspended):
                # whatever becomes of them, nothing may precede SETUP on the new transport
                for _ in range(step['during']):
                    await asyncio.sleep(0)
                during = await issue_pending(['rr', 'stream'][:step['during']], outcome='ok')
                for _, _, obj in during:
                    if hasattr(obj, 'add_done_callback'):
                        obj.add_done_callback(lambda f: f.cancelled() or f.exception())
        # wait for the new connection (bounded, virtual)
        deadline = loop.time() + 4 * L + 10.0
        while len(conns) == nconn and loop.time() < deadline:
            await asyncio.sleep(0.05)
        t_new = loop.time()
        await asyncio.sleep(P + 0.2)
        probe = None
        if len(conns) > nconn:
            i = next_iid()
            p = make_payload(i, DIR_REQUEST, 0, 16, 0)
            world.specs[i] = {'iid': i, 'model': 'rr', 'side': 'c', 'resp': {'size': (9, 3), 'outcome': 'ok'}}
            world.inter[i] = {}
            world.log('probe_call', iid=i)
            try:
                fut = client.request_response(p)
                res = await asyncio.wait_for(asyncio.shield(fut), 30.0)
                probe = ('result', pkey(res) == world.inter[i].get('emitted', {}).get(DIR_RESPONSE, [None])[0], i)
            except asyncio.TimeoutError:
                probe = ('pending', None, i)
            except Exception as e:
                probe = ('exception', repr(e)[:80], i)
        server_probe = None
        if len(conns) > nconn and desc.get('lease') and desc.get('two_way_lease'):
            # a request of the NEW server's application: it needs the client's LEASE on the new connection
            i = next_iid()
            p = make_payload(i, DIR_REQUEST, 0, 16, 0)
            world.specs[i] = {'iid': i, 'model': 'rr', 'side': 's', 'resp': {'size': (7, 2), 'outcome': 'ok'}}
            world.inter[i] = {}
            world.log('server_probe_call', iid=i)
            try:
                fut = conns[-1]['server'].request_response(p)
                res = await asyncio.wait_for(asyncio.shield(fut), 30.0)
                server_probe = ('result', pkey(res) == world.inter[i].get('emitted', {}).get(DIR_RESPONSE, [None])[0], i)
            except asyncio.TimeoutError:
                server_probe = ('pending', None, i)
            except Exception as e:
                server_probe = ('exception', repr(e)[:80], i)
        await asyncio.sleep(0.5)
        rounds.append({'cause': cause, 'server_probe': server_probe, 'old': cur, 'new': conns[-1] if len(conns) > nconn else None, 'pending': pending,
                       'during': [(k_, i_, (o_.done() if callable(getattr(o_, 'done', None)) else None)) for k_, i_, o_ in during],
                       't_cause': t_cause, 't_new': t_new, 'probe': probe,
                       'old_close_calls': cur['link'].close_calls.get('c', 0)})
    state['allow'] = False
    await asyncio.sleep(1.0)
    try:
        await client.close()
    except Exception:
        pass
    for c in conns:
        try:
            await c['server'].close()
        except Exception:
            pass
        c['link'].stop()
    return world, rounds, conns


def judge(world, rounds, conns, desc):
    from ..minicodec import brief
    from ..pair import trace_excerpt
    wit = []
    st = {'reconnects_checked': 0, 'reconnects_after_keepalive_timeout': 0, 'pending_requests_at_reconnect': 0,
          'post_reconnect_requests_served': 0}
    public = desc
    P = desc['P']

    def bad(clause, rnd, **kw):
        tr = trace_excerpt(world, 400)
        wit.append({'clause': clause, 'detail': dict(kw, round=rnd, cause=rounds[rnd]['cause'], case=public,
                                                     trace=tr[-60:])})

    for rnd, r in enumerate(rounds):
        st['reconnects_checked'] += 1
        if r['cause'] == 'keepalive-timeout':
            st['reconnects_after_keepalive_timeout'] += 1
        if r['new'] is None:
            bad('provider-not-asked-for-next-transport', rnd)
            continue
        if r['old_close_calls'] < 1:
            bad('old-transport-not-closed', rnd, close_calls=r['old_close_calls'])
        for kind, iid, obj in r['pending']:
            st['pending_requests_at_reconnect'] += 1
            if kind == 'rr':
                if not obj.done():
                    bad('old-request-left-pending', rnd, iid=iid, model=kind)
            else:
                if not any(x in ('on_error', 'on_complete', 'on_next_complete') for x in obj.log) and not obj.cancelled:
                    bad('old-request-left-pending', rnd, iid=iid, model=kind, log=obj.log[-4:])
        for kind, iid, done in r.get('during', ()):
            # a request-response issued while reconnecting is either failed with the old connection or answered on
            # the new one (the servers answer it at once); half a minute later it cannot still be pending
            if kind == 'rr':
                st['requests_issued_while_reconnecting_judged'] = st.get('requests_issued_while_reconnecting_judged', 0) + 1
                if not done:
                    bad('request-issued-while-reconnecting-left-pending', rnd, iid=iid)
        n = r['new']['index']
        sent = [e for e in world.events if e['kind'] == 'wire' and e.get('conn') == n and e['ep'] == 'c'
                and e['dir'] == 'send']
        if not sent:
            bad('nothing-sent-on-new-transport', rnd, new_conn=n)
            continue
        if sent[0]['f']['type'] != 'SETUP':
            bad('first-frame-on-new-transport-not-setup', rnd, first=brief(sent[0]['f']))
        opened = set()
        for e in world.events:
            if e['kind'] == 'wire' and e.get('conn') == n and e['ep'] == 'c':
                f = e['f']
                sid = f.get('sid', 0)
                if f['type'].startswith('REQUEST_') and f['type'] != 'REQUEST_N':
                    opened.add(sid)
                elif sid and e['dir'] == 'send' and sid not in opened:
                    bad('frame-of-a-stream-never-opened-on-the-new-transport', rnd, frame=brief(f), new_conn=n)
                    break
        reqs = [e['f'] for e in sent if e['f']['type'].startswith('REQUEST_') and e['f']['type'] != 'REQUEST_N']
        if reqs and reqs[0]['sid'] != 1:
            bad('stream-ids-not-restarted', rnd, first_stream_id=reqs[0]['sid'])
        kas = [e['t'] for e in sent if e['f']['type'] == 'KEEPALIVE' and e['f'].get('respond')]
        t_first = sent[0]['t']
        if not kas or kas[0] - t_first > P + 0.01:
            bad('keepalives-not-restarted', rnd, first_keepalive_after=(kas[0] - t_first) if kas else None, period=P)
        pr = r['probe']
        if pr is None or pr[0] != 'result' or pr[1] is not True:
            bad('request-after-reconnect-not-served', rnd, probe=pr and list(pr))
        else:
            st['post_reconnect_requests_served'] += 1
        sp = r.get('server_probe')
        if sp is not None:
            st['post_reconnect_server_requests_judged'] = st.get('post_reconnect_server_requests_judged', 0) + 1
            if sp[0] != 'result' or sp[1] is not True:
                bad('server-request-after-reconnect-not-served', rnd, probe=list(sp),
                    leases_sent_by_client_on_new_transport=sum(1 for e in sent if e['f']['type'] == 'LEASE'))
    return wit, st


def gen_case(rng):
    nr = rng.choice([1, 1, 2, 3])
    rounds = []
    for _ in range(nr):
        rounds.append({'cause': rng.choice(CAUSES), 'cut_in': rng.choice([1, 2, 3, 5]), 'during': rng.choice([0, 0, 1, 2]),
                       'pending': rng.choice([[], ['rr'], ['stream'], ['channel'], ['channel-up'], ['channel-up', 'stream'],
                                              ['rr', 'stream', 'channel'], ['rr', 'rr']]),
                       'before': rng.choice([0.0, 0.01, 0.12, 0.6, rng.random()]),
                       'task_delay': rng.choice([0.0, 0.01, 0.3, 2.5, 5.0])})
    lease = None
    if rng.random() < 0.2:
        # a lease-honouring client; every server grants a generous lease after its own delay
        lease = [[rng.choice([0.0, 0.3, 1.0, 2.0]) for _ in range(4)], 100, 60000]
    two_way = rng.choice([None, 0.0, 0.2]) if lease else None
    return {'link': rng.choice(['bytes', 'messages']), 'P': 0.5, 'L': 2.0, 'lease': lease, 'frag_s': rng.choice([None, 64, 64]),
            'on_close_delay': rng.choice([0, 0, 0.3]), 'two_way_lease': two_way,
            'connect': rng.choice([('none',), ('none',), ('ticks', 1), ('ticks', 3), ('virtual', 0.01)]),
            'provider_wait': rng.choice([('none',), ('none',), ('ticks', 1), ('ticks', 4), ('virtual', 0.05)]),
            'reconnect_from': rng.choice(['on_close', 'on_keepalive_timeout', 'task']), 'rounds': rounds}


def run_case(gen, idx, rng, tier):
    assert_repo()
    from .. import vloop
    from ..runner import short_hash
    desc = gen_case(rng)
    # reconnect from on_close needs an event that closes the connection; a silent server only triggers the
    # keepalive callback, an explicit reconnect is always issued by a task
    world, rounds, conns = vloop.run(_run(rng, desc))
    wit, st = judge(world, rounds, conns, desc)
    seen = set()
    ws = []
    for w in wit:
        k = (w['clause'], w['detail']['cause'], classify(w))
        if k not in seen:
            seen.add(k)
            ws.append(w)
    nt = st['pending_requests_at_reconnect'] > 0
    return {'evals': 1, 'nt_keys': [short_hash(desc)] if nt else [], 'deciding': st, 'witnesses': ws[:4],
            'sigs': [world.signature()], 'counts': {'cause_' + r['cause']: 1 for r in rounds}, 'sample': desc}


def classify(w):
    return None
