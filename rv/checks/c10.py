"""C10 No per-stream state survives a terminated interaction."""
from .. import assert_repo

ID = 'C10'
LEVEL = 'exploration'
RULE = ('endings: seeded E-mix cases in which every interaction ends in one of the ways of the statement (response, '
        'completion, completion flagged on the last element, empty completion, application error, peer error, cancel by '
        'either side, cancel racing completion), both roles, with and without fragmentation; at quiescence the stream '
        'table and the reassembly cache of both endpoints are read. script: the C07 history enumeration; a history is '
        'judged when the interaction has terminated by the statement\'s list (or the connection ended); additionally the '
        'raw peer re-uses the stream id for a fresh request and must not be answered REJECTED. Runs with a '
        'non-terminated interaction are not judged and not counted. non-trivial = a judged run with >= 2 interactions '
        '(mix) / a judged history of >= 2 steps (script).')
ASSUMPTIONS = ['reads the private tables _stream_control._streams and _frame_fragment_cache._frames_by_stream_id at '
               'quiescence (the observation the suite\'s own assert_no_open_streams makes, extended to the cache); a '
               'missing attribute makes the check inconclusive',
               'a channel counts as terminated on ERROR in either direction, on the requester\'s CANCEL, or when both '
               'directions are closed (completion, or the responder\'s cancel of the requester\'s direction)']
EXHAUSTIVE_GENS = ('script',)
DECIDING_REQUIRED = ('runs_judged', 'interactions_terminated', 'tables_read', 'id_reuse_probes')
BUDGET_S = {'quick': 100, 'thorough': 2400}

COMPLETE = ('on_complete', 'on_next_complete')


def plan(tier, seed):
    from . import c07
    return [('endings', 4000 if tier == 'quick' else 60000), ('script', len(c07.script_cases(tier)))]


def gen_case(rng, tier):
    from .. import mixgen
    from ..apps import EXC_KINDS
    cfg = mixgen.draw_config(rng)
    cfg['exc_kind'] = rng.choice(EXC_KINDS)
    if rng.random() < 0.15:
        # a lease-honouring client: its requests wait for the server's (small, then unlimited) leases
        cfg['lease'] = mixgen.draw_leases(rng)
    specs = []
    iid = 1
    for side in 'cs':
        for _ in range(rng.choice([0, 1, 1, 2, 3])):
            s = mixgen.draw_spec(rng, iid, cfg, side=side, big=0.0, many=0.03)
            s = mixgen.make_hostile(rng, s)
            # every interaction must end: a never-ending producer is paired with a cancel
            if s['model'] in ('stream', 'channel'):
                if s['resp'].get('terminal') == 'never' and 'cancel_after' not in s and 'cancel_delay' not in s:
                    s['cancel_delay'] = mixgen.draw_wait(rng)
                if s.get('up') and s['up'].get('terminal') == 'never':
                    s['up']['terminal'] = 'complete'
                s.pop('late_actions', None)
                if rng.random() < 0.15:
                    # a subscriber whose terminal callback raises: the interaction has terminated all the same
                    s['sub_raise_in'] = (rng.choice(['on_complete', 'on_error', 'on_next']),)
                if rng.random() < 0.05:
                    # an initial request-n the API may refuse (or may not): whatever it does, no entry may remain
                    s['n0'] = rng.choice([0, -1, 2 ** 31, 2 ** 32 - 1])
                    s['requester'] = None
            specs.append(s)
            iid += 1
    if not specs:
        return gen_case(rng, tier)
    return cfg, specs


def ending_of(spec, inter):
    """Returns (terminated: bool, how: str) for an E-mix interaction from what the applications observed."""
    model = spec['model']
    res = inter.get('result')
    if res and res[0] == 'call-raised':
        return True, 'rejected-by-the-api'       # e.g. an initial request-n the library refuses: nothing may remain
    if model in ('fnf', 'push'):
        return (res == ('sent',)), 'sent'
    if model == 'rr':
        if res and res[0] in ('result', 'exception', 'cancelled'):
            return True, res[0]
        return False, 'pending'
    sub = inter.get('subscriber')
    if sub is None:
        return False, 'no-subscriber'
    if model == 'stream':
        if sub.cancelled:
            return True, 'requester-cancel'
        if 'on_error' in sub.log:
            return True, 'error'
        if any(x in COMPLETE for x in sub.log):
            return True, 'complete'
        return False, 'pending'
    # channel
    up_sub = inter.get('up_subscriber')
    pubs = inter.get('publishers', {})
    errors = 'on_error' in sub.log or (up_sub is not None and 'on_error' in up_sub.log)
    for e in inter.get('_terminal_events', ()):
        if e == 'error':
            errors = True
    if errors:
        return True, 'error'
    if sub.cancelled:
        return True, 'requester-cancel'
    d1 = any(x in COMPLETE for x in sub.log)
    if spec.get('up') is None:
        d2 = True
    else:
        d2 = up_sub is not None and (up_sub.cancelled or any(x in COMPLETE for x in up_sub.log))
    if spec['resp'].get('publisher', True) is False:
        d1 = d1 or any(x in COMPLETE for x in sub.log)
    if d1 and d2:
        return True, 'both-closed'
    return False, 'pending'


async def _run(rng, cfg, specs):
    from ..pair import Pair
    p = Pair(rng, cfg)
    p.driver.horizon = 1.0e5
    await p.start()
    await p.run_specs(specs)
    tables = {}
    try:
        for side in 'cs':
            tables[side] = (sorted(p.open_streams(side).keys()), sorted(p.partial_frames(side).keys()))
    except AttributeError:
        tables = None
    sids = {}
    for s in specs:
        h = p.world.inter[s['iid']].get('stream_handle')
        sids[s['iid']] = getattr(h, 'stream_id', None)
    # endings are judged at quiescence, before the harness itself closes the connection
    world = p.world
    for e in world.events:
        if e['kind'] == 'emit_terminal' and e.get('ev') == 'error':
            world.inter[e['iid']].setdefault('_terminal_events', []).append('error')
    endings = {s['iid']: ending_of(s, world.inter[s['iid']]) for s in specs}
    await p.close()
    return p, tables, sids, endings


def run_case(gen, idx, rng, tier):
    assert_repo()
    from .. import vloop, mixgen
    from ..runner import short_hash
    from ..pair import trace_excerpt
    if gen == 'script':
        return run_script(idx, rng, tier)
    cfg, specs = gen_case(rng, tier)
    p, tables, sids, ends = vloop.run(_run(rng, cfg, specs))
    world = p.world
    if tables is None:
        return {'inconclusive': 'private table attributes not found'}
    endings = {}
    all_done = True
    for s in specs:
        ok, how = ends[s['iid']]
        endings[s['iid']] = how
        if not ok:
            all_done = False
    st = {'runs_judged': 0, 'interactions_terminated': 0, 'tables_read': 0, 'id_reuse_probes': 0}
    desc = {'config': mixgen.describe_cfg(cfg), 'interactions': specs}
    wit = []
    if all_done:
        st['runs_judged'] = 1
        st['interactions_terminated'] = len(specs)
        st['tables_read'] = 4
        sid_to_iid = {v: k for k, v in sids.items() if v is not None}
        opened_on_wire = {(e['ep'], e['f'].get('sid')) for e in world.events if e['kind'] == 'wire'
                          and e['f'].get('type', '').startswith('REQUEST_') and e['f']['type'] != 'REQUEST_N'}
        for side in 'cs':
            streams, partial = tables[side]
            if streams:
                left = [{'stream': sid, 'iid': sid_to_iid.get(sid), 'model': _model(specs, sid_to_iid.get(sid)),
                         'ended_by': endings.get(sid_to_iid.get(sid)),
                         # a stream whose request frame never reached the wire is unknown to the peer
                         'request_frame_on_the_wire': any((ep, sid) in opened_on_wire for ep in 'cs')}
                        for sid in streams]
                wit.append({'clause': 'open-streams-at-quiescence',
                            'detail': {'endpoint': side, 'left': left, 'endings': endings,
                                       'trace': trace_excerpt(world, 80, left[0]['iid'])}})
            if partial:
                left = [{'stream': sid, 'iid': sid_to_iid.get(sid), 'model': _model(specs, sid_to_iid.get(sid)),
                         'ended_by': endings.get(sid_to_iid.get(sid)), 'stream_still_open': sid in streams}
                        for sid in partial]
                wit.append({'clause': 'partial-frames-at-quiescence',
                            'detail': {'endpoint': side, 'streams': partial, 'left': left, 'endings': endings,
                                       'trace': trace_excerpt(world, 80)}})
    ws = []
    seen = set()
    for w in wit:
        k = (w['clause'], classify(w))
        if k not in seen:
            seen.add(k)
            w['detail']['config'] = desc['config']
            w['detail']['interactions'] = specs
            ws.append(w)
    ev = {'endings_' + h: 1 for h in set(endings.values())}
    return {'evals': 1, 'nt_keys': [short_hash(desc)] if all_done and len(specs) >= 2 else [],
            'sigs': [world.signature()], 'deciding': st, 'counts': ev, 'witnesses': ws, 'sample': desc}


def _model(specs, iid):
    for s in specs:
        if s['iid'] == iid:
            return s['model']
    return None


def script_ending(res):
    """(terminated, how) for a script history from what the real endpoint's application observed."""
    ex = res.executed
    if any(s.startswith('c:') for s in ex):
        return True, 'connection-ended'
    m, role = res.model, res.role
    if role == 'requester':
        if m == 'rr':
            return (res.future is not None and res.future.done()), 'future-done'
        sub = res.sub
        if m == 'stream':
            if sub.cancelled:
                return True, 'requester-cancel'
            if 'on_error' in sub.log:
                return True, 'error'
            return any(x in COMPLETE for x in sub.log), 'complete'
        if 'on_error' in sub.log or res.pub.how == 'error':
            return True, 'error'
        if sub.cancelled:
            return True, 'requester-cancel'
        d1 = any(x in COMPLETE for x in sub.log)
        d2 = res.pub.how in ('complete', 'flag') or res.pub.cancelled
        return (d1 and d2), 'both-closed'
    # real endpoint is the responder
    if m == 'rr':
        if 'p:cancel' in ex:
            return True, 'requester-cancel'
        return (res.resp_future is not None and res.resp_future.done()), 'future-done'
    if res.pub is None:
        return False, 'no-publisher'
    if m == 'stream':
        if 'p:cancel' in ex:
            return True, 'requester-cancel'
        if res.pub.how == 'error':
            return True, 'error'
        return res.pub.how in ('complete', 'flag'), 'complete'
    up = res.up_sub
    if (up is not None and 'on_error' in up.log) or res.pub.how == 'error':
        return True, 'error'
    if 'p:cancel' in ex:
        return True, 'requester-cancel'
    d1 = res.pub.how in ('complete', 'flag')
    d2 = up is not None and (up.cancelled or any(x in COMPLETE for x in up.log))
    return (d1 and d2), 'both-closed'


async def _probe(res):
    """At quiescence, on a live connection whose interaction has terminated and where the raw peer was the
    requester: re-use the stream id for a fresh request; it must not be answered REJECTED."""
    import asyncio
    ok, how = script_ending(res)
    res.ending = (ok, how)        # judged at quiescence, before the harness closes the endpoint
    if not ok or how == 'connection-ended' or res.role != 'responder':
        return None
    peer = res.rw.peer
    since = len(peer.received)
    t = {'rr': 'REQUEST_RESPONSE', 'stream': 'REQUEST_STREAM', 'channel': 'REQUEST_CHANNEL'}[res.model]
    f = {'type': t, 'sid': res.sid, 'data': b'RVrv\x00\x00\x00\x01probe-reuse', 'metadata': None}
    if res.model != 'rr':
        f['n'] = 1
    peer.send(f)
    await asyncio.sleep(1.0)
    rejected = [x for x in peer.frames('ERROR', res.sid, since) if x.get('code') == 0x202]
    return {'rejected': bool(rejected)}


def run_script(idx, rng, tier):
    from .. import script
    from ..pair import trace_excerpt
    from . import c07
    m, r, e, sp, start, count = c07.script_cases(tier)[idx]
    hs = c07.histories(m, r, c07.DEPTH[tier][m])[start:start + count]
    st = {'runs_judged': 0, 'interactions_terminated': 0, 'tables_read': 0, 'id_reuse_probes': 0}
    wits = []
    nt = 0
    sigs = []
    how_counts = {}
    for j, h in enumerate(hs):
        link = 'bytes' if (start + j) % 2 == 0 else 'messages'
        res = script.execute(m, r, e, h, sp, rng, link_kind=link, probe=_probe)
        if res.open_streams is None:
            return {'inconclusive': 'private table attributes not found'}
        ok, how = res.ending
        sigs.append(res.world.signature())
        if not ok:
            continue
        st['runs_judged'] += 1
        st['interactions_terminated'] += 1
        st['tables_read'] += 2
        how_counts['endings_' + how] = how_counts.get('endings_' + how, 0) + 1
        if len(h) >= 2:
            nt += 1
        ctx = {'model': m, 'role_of_real_endpoint': r, 'endpoint': e, 'spacing': sp, 'history': list(h),
               'skipped_steps': res.skipped, 'framing': link, 'ended_by': how}
        if res.open_streams:
            wits.append({'clause': 'open-streams-at-quiescence',
                         'detail': dict(ctx, left=[{'stream': s, 'model': m, 'ended_by': how} for s in res.open_streams],
                                        trace=trace_excerpt(res.world, 70))})
        if res.partial_frames and how != 'connection-ended':
            # once the connection itself has ended its reassembly cache is discarded with it (a reconnect starts
            # from fresh internals), so only live connections are judged for partial frames
            wits.append({'clause': 'partial-frames-at-quiescence',
                         'detail': dict(ctx, streams=res.partial_frames,
                                        left=[{'stream': x, 'model': m, 'ended_by': how,
                                               'stream_still_open': x in res.open_streams} for x in res.partial_frames],
                                        trace=trace_excerpt(res.world, 70))})
        pr = getattr(res, 'probe', None)
        if pr is not None:
            st['id_reuse_probes'] += 1
            if pr['rejected']:
                wits.append({'clause': 'stream-id-not-reusable',
                             'detail': dict(ctx, left=[{'stream': res.sid, 'model': m, 'ended_by': how}],
                                            trace=trace_excerpt(res.world, 70))})
    seen = set()
    ws = []
    for w in wits:
        k = (w['clause'], classify(w))
        if k not in seen:
            seen.add(k)
            ws.append(w)
    return {'evals': len(hs), 'nt_count': nt, 'sigs': sigs, 'deciding': st, 'witnesses': ws, 'counts': how_counts,
            'sample': {'model': m, 'role_of_real_endpoint': r, 'endpoint': e, 'spacing': sp,
                       'first_history': list(hs[0]), 'last_history': list(hs[-1]), 'histories': len(hs)}}


def classify(w):
    d = w.get('detail', {})
    if w.get('clause') == 'partial-frames-at-quiescence':
        left = d.get('left') or []
        # a fragment kept for a channel whose table entry itself survived ERROR / requester CANCEL: same mechanism
        if left and all(x.get('model') == 'channel' and x.get('ended_by') in ('error', 'requester-cancel')
                        and x.get('stream_still_open') for x in left):
            return 'channel-direction-survives-termination'
        return None
    if w.get('clause') in ('open-streams-at-quiescence', 'stream-id-not-reusable'):
        left = d.get('left') or []
        if left and all(x.get('model') == 'channel' and x.get('ended_by') in ('error', 'requester-cancel')
                        and x.get('request_frame_on_the_wire', True) for x in left):
            # ERROR / requester CANCEL closes only one direction of a channel; the entry stays until the other
            # direction ends too (same mechanism as the C08 finding)
            return 'channel-direction-survives-termination'
    return None
