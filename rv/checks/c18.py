"""C18 Extension metadata codecs round-trip within format limits."""
import hashlib

from .. import assert_repo

ID = 'C18'
LEVEL = 'exploration'
RULE = ('values: seeded lists of 0..8 composite entries over all entry kinds (routing tags, auth simple/bearer, data '
        'MIME type, accepted MIME types, well-known MIME header + raw body, custom MIME header + raw body) with boundary '
        'lengths (names 1,2,127,128; tags 0,1,254,255; usernames 0,1,255,256,65535; bodies 0,1,65535,65536) and random '
        'bytes; encode -> decode (entries compared) -> encode (bytes compared), in this process (cbitstruct) and in a '
        'helper with cbitstruct blocked. tables: exhaustive bijection check of the well-known MIME and auth tables; '
        'limits: exhaustive sweep of name lengths 1..140 and tag lengths 0..270 (must encode iff within the limit). '
        'non-trivial = a list with >= 2 entries, distinct by digest of the encoded bytes.')
ASSUMPTIONS = ['the two sentinel enum members with negative ids are not well-known types; their names are excluded '
               'from custom-name generation', 'custom MIME names are passed as bytes (str names are not supported by '
               'the encoder)', 'raw-body entries are not generated for the four MIME types that have typed decoders']
DECIDING_REQUIRED = ('values_roundtripped', 'backend_pairs_compared', 'table_entries_checked', 'overlong_rejected')
EXHAUSTIVE_GENS = ('tables', 'limits')
BUDGET_S = {'quick': 80, 'thorough': 1200}


def _known(rng=None):
    from rsocket.extensions.mimetypes import WellKnownMimeTypes
    return [m for m in WellKnownMimeTypes if m.value.id >= 0]


SPECIAL = ('MESSAGE_RSOCKET_ROUTING', 'MESSAGE_RSOCKET_MIMETYPE', 'MESSAGE_RSOCKET_ACCEPT_MIMETYPES',
           'MESSAGE_RSOCKET_AUTHENTICATION')


def _custom_name(rng, n=None):
    from rsocket.extensions.mimetypes import WellKnownMimeTypes
    names = {m.value.name for m in WellKnownMimeTypes}
    if n is None:
        n = rng.choice([1, 2, 3, 10, 30, 126, 127, 128, rng.randrange(1, 129)])
    while True:
        alphabet = rng.choice([b'abcdefghijklmnopqrstuvwxyz/.-+', bytes(range(256))])
        name = bytes(rng.choice(alphabet) for _ in range(n))
        if name not in names:
            return name


def _blen(rng, special):
    return rng.choice(special + [rng.randrange(0, 64)])


def _mime_value(rng):
    """A MIME type designator as applications pass it: enum member, WellKnownMimeType, known name bytes, custom bytes.
    Returns (value, normal name bytes)."""
    k = rng.randrange(4)
    if k == 0:
        m = rng.choice(_known())
        return m, m.value.name
    if k == 1:
        m = rng.choice(_known())
        return m.value, m.value.name
    if k == 2:
        m = rng.choice(_known())
        return m.value.name, m.value.name
    n = _custom_name(rng)
    return n, n


def gen_entry(rng):
    """Returns (item constructor thunk description, normal form)."""
    kind = rng.choice(['routing', 'auth-simple', 'auth-bearer', 'data-mime', 'accept-mimes', 'known-raw', 'custom-raw'])
    if kind == 'routing':
        ntags = rng.choice([0, 1, 1, 2, 5])
        tags = []
        for _ in range(ntags):
            n = _blen(rng, [0, 1, 254, 255])
            t = rng.randbytes(n)
            if rng.random() < 0.3:
                t = ''.join(rng.choice('abc.def/') for _ in range(min(n, 200)))
            tags.append(t)
        return ('routing', tags), ('routing', [t.encode() if isinstance(t, str) else t for t in tags])
    if kind == 'auth-simple':
        u = rng.randbytes(_blen(rng, [0, 1, 255, 256, 65535]))
        p = rng.randbytes(_blen(rng, [0, 1, 255, 65536]))
        if rng.random() < 0.3:
            u, p = 'user%d' % rng.randrange(100), 'pass%d' % rng.randrange(100)
        nb = lambda x: x.encode() if isinstance(x, str) else x
        return ('auth-simple', u, p), ('auth', b'simple', nb(u), nb(p))
    if kind == 'auth-bearer':
        t = rng.randbytes(_blen(rng, [0, 1, 65535, 65536]))
        return ('auth-bearer', t), ('auth', b'bearer', t)
    if kind == 'data-mime':
        v, name = _mime_value(rng)
        return ('data-mime', v), ('data-mime', name)
    if kind == 'accept-mimes':
        vs = [_mime_value(rng) for _ in range(rng.choice([0, 1, 2, 5]))]
        return ('accept-mimes', [v for v, _ in vs]), ('accept-mimes', [n for _, n in vs])
    if kind == 'known-raw':
        m = rng.choice([m for m in _known() if m.name not in SPECIAL])
        body = rng.randbytes(_blen(rng, [0, 1, 65535, 65536]))
        v = rng.choice([m, m.value, m.value.name])
        return ('raw', v, body), ('raw', m.value.name, body)
    name = _custom_name(rng)
    body = rng.randbytes(_blen(rng, [0, 1, 65535, 65536]))
    return ('raw', name, body), ('raw', name, body)


def build_item(desc):
    from rsocket.extensions import helpers as H
    k = desc[0]
    if k == 'routing':
        return H.route(*desc[1])
    if k == 'auth-simple':
        return H.authenticate_simple(desc[1], desc[2])
    if k == 'auth-bearer':
        return H.authenticate_bearer(desc[1])
    if k == 'data-mime':
        return H.data_mime_type(desc[1])
    if k == 'accept-mimes':
        return H.data_mime_types(*desc[1])
    if k == 'raw':
        return H.metadata_item(desc[2], desc[1])
    raise KeyError(k)


def _name_of(enc):
    from rsocket.extensions.mimetypes import WellKnownMimeTypes
    if isinstance(enc, WellKnownMimeTypes):
        return enc.value.name
    if hasattr(enc, 'name') and hasattr(enc, 'id'):
        return enc.name
    return bytes(enc)


def normal_of_item(item):
    from rsocket.extensions.routing import RoutingMetadata
    from rsocket.extensions.authentication_content import AuthenticationContent
    from rsocket.extensions.authentication import AuthenticationSimple, AuthenticationBearer
    from rsocket.extensions.stream_data_mimetype import StreamDataMimetype, StreamDataMimetypes
    if isinstance(item, RoutingMetadata):
        return ('routing', [bytes(t) for t in item.tags])
    if isinstance(item, AuthenticationContent):
        a = item.authentication
        if isinstance(a, AuthenticationSimple):
            return ('auth', b'simple', bytes(a.username), bytes(a.password))
        if isinstance(a, AuthenticationBearer):
            return ('auth', b'bearer', bytes(a.token))
        return ('auth', '?')
    if isinstance(item, StreamDataMimetype):
        return ('data-mime', _name_of(item.data_encoding))
    if isinstance(item, StreamDataMimetypes):
        return ('accept-mimes', [_name_of(e) for e in item.data_encodings])
    return ('raw', _name_of(item.encoding), bytes(item.content))


def _clip(o):
    if isinstance(o, (bytes, bytearray)):
        return o if len(o) <= 24 else 'hex:%s..(%d)' % (bytes(o[:12]).hex(), len(o))
    if isinstance(o, (list, tuple)):
        return [_clip(x) for x in o]
    if hasattr(o, 'name') and not isinstance(o, (str, bytes)):
        return 'known:%s' % (getattr(o, 'name'),)
    return o


def check_value(descs, normals):
    """Returns (digest, witnesses)."""
    from rsocket.extensions.composite_metadata import CompositeMetadata
    from rsocket.extensions.helpers import composite
    wit = []
    ctx = {'entries': _clip([list(d) for d in descs])}
    try:
        b1 = bytes(composite(*[build_item(d) for d in descs]))
    except Exception as e:
        return 'raise', [{'clause': 'encode-raises-on-in-range-value', 'detail': dict(ctx, error=repr(e))}]
    h = hashlib.sha256(b1)
    try:
        cm = CompositeMetadata().parse(b1)
        got = [normal_of_item(i) for i in cm.items]
    except Exception as e:
        return h.hexdigest(), [{'clause': 'decode-raises', 'detail': dict(ctx, error=repr(e))}]
    h.update(repr(got).encode())
    if got != list(normals):
        i = next((i for i, (a, b) in enumerate(zip(got, normals)) if a != b), min(len(got), len(normals)))
        wit.append({'clause': 'decode-differs', 'detail': dict(ctx, first_differing_entry=i,
                                                               expected=_clip(normals[i]) if i < len(normals) else None,
                                                               got=_clip(got[i]) if i < len(got) else None,
                                                               entries_expected=len(normals), entries_got=len(got))})
    try:
        b2 = bytes(cm.serialize())
    except Exception as e:
        b2 = b'raise:' + repr(e).encode()
    h.update(b2)
    if b2 != b1:
        wit.append({'clause': 'reencode-differs', 'detail': dict(ctx, len=(len(b1), len(b2)))})
    return h.hexdigest(), wit


def _values(gen, idx, rng, tier):
    out = []
    for _ in range(40):
        n = rng.choice([0, 1, 1, 2, 2, 3, 4, 8])
        ds, ns = [], []
        for _ in range(n):
            d, nrm = gen_entry(rng)
            ds.append(d)
            ns.append(nrm)
        out.append((ds, ns))
    return out


def helper_case(gen, idx, rng, tier):
    out = []
    for ds, ns in _values(gen, idx, rng, tier):
        dg, wit = check_value(ds, ns)
        out.append([dg, [w['clause'] for w in wit]])
    return out


def _tables():
    """Exhaustive bijection check of both well-known tables."""
    from rsocket.extensions.mimetypes import WellKnownMimeTypes
    from rsocket.extensions.authentication_types import WellKnownAuthenticationTypes
    from rsocket.extensions.helpers import composite, metadata_item, authenticate_bearer
    from rsocket.extensions.composite_metadata import CompositeMetadata
    wit = []
    n = 0
    for label, enum, lo in (('mime', WellKnownMimeTypes, 0), ('auth', WellKnownAuthenticationTypes, 0)):
        members = [m for m in enum if m.value.id >= lo]
        ids = [m.value.id for m in members]
        names = [m.value.name for m in members]
        if len(set(ids)) != len(ids):
            wit.append({'clause': 'table-ids-collide', 'detail': {'table': label,
                                                                  'ids': sorted(i for i in ids if ids.count(i) > 1)}})
        if len(set(names)) != len(names):
            wit.append({'clause': 'table-names-collide', 'detail': {'table': label}})
        for m in members:
            n += 1
            i, name = m.value.id, m.value.name
            if not 0 <= i <= 127:
                wit.append({'clause': 'table-id-out-of-range', 'detail': {'table': label, 'id': i}})
                continue
            try:
                back = enum.require_by_id(i)
                back_name = back if isinstance(back, (bytes, bytearray)) else back.name
            except Exception as e:
                back_name = repr(e)
            if back_name != name:
                wit.append({'clause': 'table-id-does-not-map-back', 'detail': {'table': label, 'id': i, 'name': name,
                                                                                'got': back_name}})
            got = enum.get_by_name(name)
            got_id = got if isinstance(got, int) or got is None else got.id
            if got_id != i:
                wit.append({'clause': 'table-name-does-not-map-back', 'detail': {'table': label, 'id': i, 'name': name,
                                                                                  'got': got_id}})
        if label == 'mime':
            for m in members:
                if m.name in SPECIAL:
                    continue
                for v in (m, m.value, m.value.name):
                    b = bytes(composite(metadata_item(b'xy', v)))
                    if b[:1] != bytes((0x80 | m.value.id,)) or len(b) != 1 + 3 + 2:
                        wit.append({'clause': 'known-mime-not-encoded-as-id',
                                    'detail': {'name': m.value.name, 'id': m.value.id, 'encoded': b[:8].hex()}})
                    back = CompositeMetadata().parse(b).items[0]
                    if _name_of(back.encoding) != m.value.name:
                        wit.append({'clause': 'decode-differs', 'detail': {'name': m.value.name,
                                                                           'got': _name_of(back.encoding)}})
    return n, wit


def _limits():
    from rsocket.extensions.helpers import composite, metadata_item, route, data_mime_type
    from rsocket.extensions.composite_metadata import CompositeMetadata
    wit = []
    rejected = 0
    checked = 0
    for n in range(1, 141):
        name = (b'x-custom/' + b'n' * 200)[:n]
        for how in ('item', 'data-mime'):
            checked += 1
            try:
                b = bytes(composite(metadata_item(b'body', name) if how == 'item' else data_mime_type(name)))
                ok = True
            except Exception:
                ok = False
            if n <= 128 and not ok:
                wit.append({'clause': 'in-range-name-rejected', 'detail': {'name_len': n, 'how': how}})
            if n > 128:
                if ok:
                    wit.append({'clause': 'overlong-name-accepted', 'detail': {'name_len': n, 'how': how,
                                                                               'encoded_len': len(b)}})
                else:
                    rejected += 1
            if ok and n <= 128:
                it = CompositeMetadata().parse(b).items[0]
                got = normal_of_item(it)
                want = ('raw', name, b'body') if how == 'item' else ('data-mime', name)
                if got != want:
                    wit.append({'clause': 'decode-differs', 'detail': {'name_len': n, 'how': how, 'got': _clip(got)}})
    for n in range(0, 271):
        tag = b't' * n
        for pos in (0, 1):
            checked += 1
            tags = [tag] if pos == 0 else [b'first', tag]
            try:
                b = bytes(composite(route(*tags)))
                ok = True
            except Exception:
                ok = False
            if n <= 255 and not ok:
                wit.append({'clause': 'in-range-tag-rejected', 'detail': {'tag_len': n}})
            if n > 255:
                if ok:
                    wit.append({'clause': 'overlong-tag-accepted', 'detail': {'tag_len': n, 'encoded_len': len(b)}})
                else:
                    rejected += 1
            if ok and n <= 255:
                got = normal_of_item(CompositeMetadata().parse(b).items[0])
                if got != ('routing', tags):
                    wit.append({'clause': 'decode-differs', 'detail': {'tag_len': n, 'got': _clip(got)}})
    return checked, rejected, wit


def plan(tier, seed):
    return [('values', 1500 if tier == 'quick' else 20000), ('tables', 1), ('limits', 1)]


def run_case(gen, idx, rng, tier):
    assert_repo()
    from .. import native_helper
    if gen == 'tables':
        n, wit = _tables()
        return {'evals': n, 'nt_count': n, 'deciding': {'table_entries_checked': n}, 'witnesses': _dedup(wit),
                'sample': {'table_entries': n}}
    if gen == 'limits':
        checked, rejected, wit = _limits()
        return {'evals': checked, 'nt_count': checked, 'deciding': {'overlong_rejected': rejected},
                'witnesses': _dedup(wit), 'sample': {'lengths_checked': checked, 'rejected': rejected}}
    vals = _values(gen, idx, rng, tier)
    witnesses = []
    digests = []
    nt = []
    for ds, ns in vals:
        dg, wit = check_value(ds, ns)
        digests.append(dg)
        witnesses += wit
        if len(ds) >= 2:
            nt.append(dg[:16])
    hello, other = native_helper.ask('rv.checks.c18', gen, idx, tier, rng.rv_seed)
    compared = 0
    if hello.get('native') and native_helper.default_backend_is_cbitstruct():
        for (ds, ns), a, (b, clauses) in zip(vals, digests, other):
            compared += 1
            if a != b:
                witnesses.append({'clause': 'backend-differs', 'detail': {'entries': _clip([list(d) for d in ds]),
                                                                          'native_clauses': clauses}})
    return {'evals': len(vals), 'nt_keys': nt,
            'deciding': {'values_roundtripped': len(vals), 'backend_pairs_compared': compared},
            'counts': {'entries': sum(len(ds) for ds, _ in vals)},
            'witnesses': _dedup(witnesses),
            'sample': {'entries_of_first_value': _clip([list(d) for d in vals[0][0]]),
                       'entries_of_last_value': _clip([list(d) for d in vals[-1][0]])}}


def _dedup(wit):
    seen = set()
    out = []
    for w in wit:
        if w['clause'] not in seen:
            seen.add(w['clause'])
            out.append(w)
    return out


def classify(w):
    return None
