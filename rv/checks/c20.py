"""C20 Rx/ReactiveX adapters are transparent."""
import asyncio
from datetime import timedelta

from .. import assert_repo
from ..links import ANY_LINK

ID = 'C20'
LEVEL = 'exploration'
RULE = ('a seeded scenario (interaction model, element counts 0..30 per direction, request limit in {1,2,3,count-1,count,'
        'count+1,2^31-1}, error position, disposal moment, observable kind: cold from_iterable / hot subject fed by a '
        'paced task / back-pressure factory, link knobs) is driven through the Rx v3 or ReactiveX v4 client adapter, '
        'handler adapter or both; recording observers / delegate handlers on both sides are compared with the ground '
        'truth the core API delivers for the same scenario (elements, order, completion, error, both directions of a '
        'channel); on the requester\'s tap outstanding credit never exceeds the limit and every REQUEST_N / initial n '
        'equals it; on the responder\'s tap the C06 credit ledger holds; a back-pressure factory\'s feedback subject '
        'receives exactly the credits received on the wire; disposal produces exactly one CANCEL and cancels the peer\'s '
        'source; fire-and-forget, metadata-push and setup reach the delegate exactly once with the same payload. '
        'non-trivial = a stream/channel scenario with >= 2 elements and a limit smaller than the element count; distinct '
        'by scenario digest.')
ASSUMPTIONS = ['ground truth = the scripted element lists (what C01 establishes for the core API)',
               'a plain observable may be drained into the adapter\'s buffer before credit arrives; only wire emission is '
               'held to the credit ledger']
DECIDING_REQUIRED = ('observer_logs_compared', 'credit_windows_checked', 'feedback_sequences_compared', 'disposals_checked',
                     'delegate_calls_checked', 'refused_requests_checked')
BUDGET_S = {'quick': 100, 'thorough': 1800}
MAXN = 0x7FFFFFFF


def plan(tier, seed):
    return [('streams', 6000 if tier == 'quick' else 60000), ('single', 1000 if tier == 'quick' else 8000),
            ('refused', 60 if tier == 'quick' else 400)]


def _mods(version):
    if version == 'rx4':
        import reactivex as R
        from reactivex import operators as ops
        from reactivex.subject import Subject
        from rsocket.reactivex.reactivex_client import ReactiveXClient as Client
        from rsocket.reactivex.reactivex_handler import BaseReactivexHandler as Base
        from rsocket.reactivex.reactivex_handler_adapter import reactivex_handler_factory as factory
        from rsocket.reactivex.reactivex_channel import ReactivexChannel as Chan
        from rsocket.reactivex import back_pressure_publisher as bp
    else:
        import rx as R
        from rx import operators as ops
        from rx.subject import Subject
        from rsocket.rx_support.rx_rsocket import RxRSocket as Client
        from rsocket.rx_support.rx_handler import BaseRxHandler as Base
        from rsocket.rx_support.rx_handler_adapter import rx_handler_factory as factory
        from rsocket.rx_support.rx_channel import RxChannel as Chan
        from rsocket.rx_support import back_pressure_publisher as bp
    return R, ops, Subject, Client, Base, factory, Chan, bp


class _Frozen(list):
    """A log as it stood at quiescence; later entries are kept apart."""

    def append(self, x):
        self.__dict__.setdefault('late', []).append(x)


class ObsLog:
    def __init__(self, world, who):
        self.world = world
        self.who = who
        self.log = []
        self.values = []
        self.done = asyncio.Event()
        self.dispose_after = None
        self.subscription = None
        self.disposed = False

    def on_next(self, v):
        from ..apps import pkey
        self.log.append('on_next')
        self.values.append(pkey(v))
        self.world.log('obs', who=self.who, ev='on_next')
        if self.dispose_after is not None and len(self.values) >= self.dispose_after and not self.disposed:
            self.dispose()

    def on_error(self, e):
        self.log.append('on_error')
        self.world.log('obs', who=self.who, ev='on_error', err=repr(e)[:60])
        self.done.set()

    def on_completed(self):
        self.log.append('on_completed')
        self.world.log('obs', who=self.who, ev='on_completed')
        self.done.set()

    def dispose(self):
        self.disposed = True
        self.world.log('obs', who=self.who, ev='dispose')
        if self.subscription is not None:
            self.subscription.dispose()
        self.done.set()


def make_observable(version, world, who, iid, direction, elems, error_at, kind, pacing, rec):
    """Observable (or back-pressure factory) producing the scripted elements; rec collects what was pulled."""
    from ..apps import make_payload, pkey
    R, ops, Subject, Client, Base, factory, Chan, bp = _mods(version)

    def payload(seq):
        dl, ml = elems[seq]
        p = make_payload(iid, direction, seq, dl, ml)
        rec['emitted'].append(pkey(p))
        world.log('emit', who=who, iid=iid, dir=direction, seq=seq)
        return p

    if kind == 'cold':
        def it():
            for seq in range(len(elems)):
                if error_at is not None and seq == error_at:
                    raise RuntimeError('app-error-%d' % iid)
                yield payload(seq)
            if error_at is not None and error_at >= len(elems):
                raise RuntimeError('app-error-%d' % iid)
        return R.from_iterable(it())
    if kind == 'hot':
        subj = Subject()

        async def feeder():
            # a hot source loses whatever it emits before anybody subscribed (with or without the adapters, which
            # subscribe when the first credit arrives); the scenario starts feeding once it has an observer
            for _ in range(100000):
                if getattr(subj, 'observers', None):
                    break
                await asyncio.sleep(pacing)
            await asyncio.sleep(pacing)
            for seq in range(len(elems)):
                if error_at is not None and seq == error_at:
                    subj.on_error(RuntimeError('app-error-%d' % iid))
                    return
                subj.on_next(payload(seq))
                await asyncio.sleep(pacing)
            if error_at is not None:
                subj.on_error(RuntimeError('app-error-%d' % iid))
            else:
                subj.on_completed()

        rec['feeder_task'] = asyncio.ensure_future(feeder())
        return subj
    # back-pressure aware factory

    async def values():
        for seq in range(len(elems)):
            if pacing:
                await asyncio.sleep(pacing)
            if error_at is not None and seq == error_at:
                raise RuntimeError('app-error-%d' % iid)
            yield payload(seq)
        if error_at is not None:
            raise RuntimeError('app-error-%d' % iid)

    def fac(backpressure):
        backpressure.subscribe(on_next=lambda n: rec['feedback'].append(n),
                               on_completed=lambda: rec['feedback'].append('completed'))
        return bp.observable_from_async_generator(values().__aiter__(), backpressure)

    return bp.from_observable_with_backpressure(fac)


async def _scenario(rng, d):
    from rsocket.rsocket_client import RSocketClient
    from rsocket.rsocket_server import RSocketServer
    from rsocket.payload import Payload
    from .. import links
    from ..apps import World, ScriptedHandler, RecSubscriber, RecPublisher, make_payload, pkey, DIR_REQUEST, DIR_RESPONSE, \
        DIR_CHANNEL_UP
    from ..pair import Driver, instrument_endpoint_queue
    version = d['version']
    R, ops, Subject, Client, Base, factory, Chan, bp = _mods(version)
    world = World()
    driver = Driver(world, 1.0e5)
    link = links.make_link(d['link'], rng, links.Knobs.draw(rng) if d['knobs'] else None,
                           links.Knobs.draw(rng) if d['knobs'] else None)
    link.tap.listeners.append(world.on_wire)
    iid = 1
    model = d['model']
    down = {'emitted': [], 'feedback': []}
    up = {'emitted': [], 'feedback': []}
    delegate_calls = []
    res = {'down': down, 'up': up, 'delegate_calls': delegate_calls}
    server_obs = ObsLog(world, 'server-observer')
    res['server_obs'] = server_obs
    req_payload = make_payload(iid, DIR_REQUEST, 0, 16, 4)
    world.specs[iid] = {'iid': iid, 'model': model, 'side': 'c',
                        'resp': {'elems': d['down'] if d['down_error'] is None else d['down'][:d['down_error']],
                                 'terminal': 'error' if d['down_error'] is not None else 'complete',
                                 'pacing': ('tick',), 'source': 'rec', 'size': d['down'][0] if d['down'] else (0, 0),
                                 'outcome': 'ok' if d['down_error'] is None else 'error', 'up_n0': d['up_limit'], 'up_policy': ('refill', d['up_limit'], 0)}}
    world.inter[iid] = {}
    tasks = []

    if d['handler_adapter']:
        class Delegate(Base):
            async def on_setup(self, data_encoding, metadata_encoding, payload):
                delegate_calls.append(('setup', pkey(payload), bytes(data_encoding), bytes(metadata_encoding)))

            async def request_stream(self, payload):
                delegate_calls.append(('stream', pkey(payload)))
                return make_observable(version, world, 'handler', iid, DIR_RESPONSE, d['down'], d['down_error'],
                                       d['down_kind'], d['pacing'], down)

            async def request_channel(self, payload):
                delegate_calls.append(('channel', pkey(payload)))
                o = None if d.get('receive_only') else make_observable(
                    version, world, 'handler', iid, DIR_RESPONSE, d['down'], d['down_error'], d['down_kind'],
                    d['pacing'], down)
                obs = None
                if d['up'] is not None:
                    if version == 'rx4':
                        from reactivex import Observer
                    else:
                        from rx.core import Observer
                    obs = Observer(server_obs.on_next, server_obs.on_error, server_obs.on_completed)
                return Chan(o, obs, d['up_limit'])

            async def request_response(self, payload):
                delegate_calls.append(('rr', pkey(payload)))
                if d['down_error'] is not None:
                    return R.throw(RuntimeError('app-error'))
                if not d['down']:
                    return R.empty()
                dl, ml = d['down'][0]
                p = make_payload(iid, DIR_RESPONSE, 0, dl, ml)
                down['emitted'].append(pkey(p))
                return R.of(p)

            if d.get('rr_future') and version == 'rx4':
                # the v4 adapter also accepts a Future of the observable
                _plain_rr = request_response

                async def request_response(self, payload, _plain_rr=_plain_rr):
                    f = asyncio.get_event_loop().create_future()
                    o = await _plain_rr(self, payload)
                    if d['rr_future'] == 'late':
                        asyncio.get_event_loop().call_later(0.01, f.set_result, o)
                    else:
                        f.set_result(o)
                    return f

            async def request_fire_and_forget(self, payload):
                delegate_calls.append(('fnf', pkey(payload)))

            async def on_metadata_push(self, payload):
                delegate_calls.append(('push', pkey(payload)))

        handler_factory = factory(Delegate)
    else:
        hs = ScriptedHandler(world, 's', driver)
        handler_factory = lambda: hs    # noqa
        res['core_handler'] = hs
    setup_payload = Payload(b'setup-data', b'setup-md')
    server = RSocketServer(link.transports['s'], handler_factory=handler_factory)

    async def provider():
        yield link.transports['c']

    core = RSocketClient(provider(), keep_alive_period=timedelta(seconds=1e6),
                         max_lifetime_period=timedelta(seconds=2e6), setup_payload=setup_payload,
                         data_encoding=b'application/x-rv-data', metadata_encoding=b'message/x-rv-metadata')
    instrument_endpoint_queue(world, core, 'c')
    instrument_endpoint_queue(world, server, 's')
    await core.connect()
    client_obs = ObsLog(world, 'client-observer')
    client_obs.dispose_after = d['dispose_after']
    res['client_obs'] = client_obs
    limit = d['limit']
    if d['client_adapter']:
        cl = Client(core)
        if model == 'stream':
            o = cl.request_stream(req_payload, request_limit=limit)
        elif model == 'channel':
            upo = None
            if d['up'] is not None:
                upo = make_observable(version, world, 'client', iid, DIR_CHANNEL_UP, d['up'], d['up_error'], d['up_kind'],
                                      d['pacing'], up)
            o = cl.request_channel(req_payload, request_limit=limit, observable=upo)
        elif model == 'rr':
            o = cl.request_response(req_payload)
        elif model == 'fnf':
            o = cl.fire_and_forget(req_payload)
        else:
            o = cl.metadata_push(req_payload.data)
        client_obs.subscription = o.subscribe(on_next=client_obs.on_next, on_error=client_obs.on_error,
                                              on_completed=client_obs.on_completed)
        if d['dispose_after'] == 0 and not client_obs.disposed:
            client_obs.dispose()
    else:
        # core client: a recording subscriber granting credit `limit` at a time (what the adapter is specified to do)
        sub = RecSubscriber(world, iid, DIR_RESPONSE, 'core-sub',
                            policy=('burst', tuple(d['core_burst']), 0) if d.get('core_burst') else ('refill', limit, 0),
                            initial_granted=limit,
                            cancel_after=d['dispose_after'])
        res['core_sub'] = sub
        if model == 'stream':
            core.request_stream(req_payload).initial_request_n(limit).subscribe(sub)
        elif model == 'channel':
            pub = None
            if d['up'] is not None:
                pub = RecPublisher(world, iid, DIR_CHANNEL_UP, 'core-pub',
                                   d['up'] if d['up_error'] is None else d['up'][:d['up_error']],
                                   'error' if d['up_error'] is not None else d.get('up_terminal', 'complete'), ('tick',))
                res['core_pub'] = pub
            core.request_channel(req_payload, pub).initial_request_n(limit).subscribe(sub)
        elif model == 'rr':
            fut = core.request_response(req_payload)
            res['core_future'] = fut
        elif model == 'fnf':
            core.fire_and_forget(req_payload)
        else:
            core.metadata_push(req_payload.data)
    # run to quiescence (virtual)
    waited = 0.0
    while waited < 3.0e4:
        n = len(world.events)
        await asyncio.sleep(2.0)
        for _ in range(5):
            await asyncio.sleep(0)
        waited += 2.0
        idle = all(not p_.buf for p_ in link.pipes.values()) if link.framing == 'bytes' else \
            all(q.empty() for q in link.queues.values())
        if len(world.events) == n and idle:
            break
    # what the harness's own teardown below still causes (an on_error for an interaction that was hanging) must not
    # be mistaken for the library delivering a terminal signal
    for o in (client_obs, server_obs, res.get('core_sub'), world.inter[iid].get('up_subscriber')):
        if o is not None and hasattr(o, 'log'):
            o.log = _Frozen(o.log)
    if res.get('core_future') is not None and not res['core_future'].done():
        res['core_future_pending_at_quiescence'] = True
    res['world'] = world
    res['link'] = link
    res['req'] = pkey(req_payload)
    for r_ in (down, up):
        if r_.get('feeder_task'):
            r_['feeder_task'].cancel()
    try:
        await core.close()
    except Exception:
        pass
    await server.close()
    link.stop()
    return res


def gen_scenario(rng, single=False):
    version = rng.choice(['rx4', 'rx3'])
    mode = rng.choice(['client', 'handler', 'both'])
    model = rng.choice(['rr', 'fnf', 'push']) if single else rng.choice(['stream', 'stream', 'channel'])

    def elems(n):
        return [(rng.choice([1, 3, 20, 200]), rng.choice([0, 0, 4])) for _ in range(n)]

    n = rng.choice([0, 1, 2, 3, 5, 8, 13, 30, rng.randrange(0, 31)])
    limit = rng.choice([1, 2, 3, max(1, n - 1), max(1, n), n + 1, MAXN])
    d = {'version': version, 'client_adapter': mode in ('client', 'both'), 'handler_adapter': mode in ('handler', 'both'),
         'model': model, 'down': elems(n if not single else rng.choice([0, 1])), 'limit': limit,
         'down_error': rng.choice([None, None, None, rng.randrange(0, n + 1)]),
         'down_kind': rng.choice(['cold', 'hot', 'bp']), 'pacing': rng.choice([0.0, 0.001, 0.05]),
         'dispose_after': rng.choice([None, None, None, 0, 1, rng.randrange(0, n + 1)]),
         'up': None, 'up_error': None, 'up_kind': 'cold', 'up_limit': MAXN,
         'link': rng.choice(ANY_LINK), 'knobs': rng.random() < 0.5}
    if not d['client_adapter'] and model in ('stream', 'channel') and rng.random() < 0.4:
        # a core-API requester that grants credit in several back-to-back request() calls: the grants pile up at the
        # adapter behind the handler's observable and must all count
        d['core_burst'] = [rng.choice([1, 2, 3]) for _ in range(rng.choice([2, 3, 4]))]
    if d['pacing'] == 0.0:
        d['pacing'] = 0.0   # placeholder, hot sources get a non-zero pacing below
    if model == 'channel' and rng.random() < 0.8:
        m = rng.choice([0, 1, 2, 5, 13])
        d['up'] = elems(m)
        d['up_error'] = rng.choice([None, None, None, rng.randrange(0, m + 1)])
        d['up_kind'] = rng.choice(['cold', 'hot', 'bp'])
        d['up_limit'] = rng.choice([1, 2, 3, max(1, m), MAXN])
        d['up_terminal'] = rng.choice(['complete', 'flag'])     # last element carrying the COMPLETE flag (core publishers)
        if d['up_error'] is not None or d['down_error'] is not None:
            # with errors in a channel the other direction's fate is the recorded known finding of C08/C10
            if rng.random() < 0.5:
                d['up_error'] = None
            else:
                d['down_error'] = None
    if model == 'channel' and d['up'] is not None and d['handler_adapter'] and rng.random() < 0.2:
        # a receive-only channel: the delegate returns an observer but no observable
        d['receive_only'] = True
        d['down'], d['down_error'], d['dispose_after'] = [], None, None
    if single:
        d['dispose_after'] = None
        d['limit'] = MAXN
        d['rr_future'] = rng.choice([None, 'done', 'late']) if model == 'rr' else None
    if 'hot' in (d['down_kind'], d['up_kind']) and d['pacing'] == 0.0:
        d['pacing'] = 0.001      # a hot source must not fire before anybody can have subscribed
    if not d['handler_adapter']:
        d['down_kind'] = 'core'
    if not d['client_adapter']:
        d['up_kind'] = 'core'
    return d


def judge(d, res):
    from ..apps import make_payload, pkey, DIR_RESPONSE, DIR_CHANNEL_UP
    from ..pair import trace_excerpt
    from . import c06
    world = res['world']
    wit = []
    st = {'observer_logs_compared': 0, 'credit_windows_checked': 0, 'feedback_sequences_compared': 0,
          'disposals_checked': 0, 'delegate_calls_checked': 0}
    iid = 1
    model = d['model']

    def bad(clause, **kw):
        wit.append({'clause': clause, 'detail': dict(kw, scenario=d, trace=trace_excerpt(world, 90)[-70:])})

    def truth(elems, err, direction):
        n = len(elems) if err is None else min(err, len(elems))
        vals = [pkey(make_payload(iid, direction, i, dl, ml)) for i, (dl, ml) in enumerate(elems[:n])]
        return vals, ('on_error' if err is not None else 'on_completed')

    request_sent = any(e['kind'] == 'queue' and e['ep'] == 'c' and
                       (e['f'].get('type', '').startswith('REQUEST_') or e['f'].get('type') == 'METADATA_PUSH')
                       for e in world.events)
    # ---- delegate handler sees the request / fnf / push / setup exactly once with the same payload
    if d['handler_adapter'] and not request_sent:
        # disposed before the adapter's subscription task ever ran: the interaction never started
        st['delegate_calls_checked'] += 1
        if any(c[0] == model for c in res['delegate_calls']):
            bad('delegate-called-although-no-request-was-sent')
        return wit, st
    if not request_sent and d['dispose_after'] == 0:
        return wit, st
    if d['handler_adapter']:
        calls = res['delegate_calls']
        st['delegate_calls_checked'] += 1
        setups = [c for c in calls if c[0] == 'setup']
        if len(setups) != 1 or setups[0][1] != (b'setup-data', b'setup-md'):
            bad('setup-not-delivered-to-delegate-exactly-once', calls=[c[0] for c in calls])
        elif setups[0][2:] != (b'application/x-rv-data', b'message/x-rv-metadata'):
            bad('setup-encodings-differ-at-delegate', data_encoding=repr(setups[0][2]), metadata_encoding=repr(setups[0][3]))
        want = res['req'] if model != 'push' else (b'', res['req'][0])
        mine = [c for c in calls if c[0] == model]
        if len(mine) != 1 or mine[0][1] != want:
            bad('request-not-delivered-to-delegate-exactly-once', calls=[(c[0], len(c[1][0]), len(c[1][1])) for c in calls])
    if model in ('fnf', 'push'):
        if d['client_adapter']:
            st['observer_logs_compared'] += 1
            if res['client_obs'].log != ['on_next', 'on_completed'] and res['client_obs'].log != ['on_completed']:
                bad('send-observable-did-not-complete', log=res['client_obs'].log)
        return wit, st
    # ---- requester side logs
    disposed = d['dispose_after'] is not None
    want_vals, want_term = truth(d['down'], d['down_error'], DIR_RESPONSE)
    if model == 'rr':
        want_vals = want_vals[:1] if d['down_error'] is None else []
    if d['client_adapter']:
        obs = res['client_obs']
        got_vals, log = obs.values, obs.log
        term = [x for x in log if x != 'on_next']
    elif model == 'rr':
        fut = res['core_future']
        got_vals, term = [], []
        if fut.done() and not fut.cancelled() and not res.get('core_future_pending_at_quiescence'):
            if fut.exception() is None:
                k = pkey(fut.result())
                got_vals = [k] if (k[0] or k[1]) else []
                term = ['on_completed']
            else:
                term = ['on_error']
    else:
        sub = res['core_sub']
        got_vals = [v for v in sub.values if v[0] or v[1]]
        term = ['on_completed' if x in ('on_complete', 'on_next_complete') else 'on_error' for x in sub.log
                if x in ('on_complete', 'on_next_complete', 'on_error')]
    st['observer_logs_compared'] += 1
    if disposed and (d['client_adapter'] or model != 'rr'):
        st['disposals_checked'] += 1
        k = d['dispose_after']
        if got_vals != want_vals[:len(got_vals)]:
            bad('elements-differ-before-disposal', got=len(got_vals), expected_prefix_of=len(want_vals))
        was_disposed = res['client_obs'].disposed if d['client_adapter'] else res['core_sub'].cancelled
        if was_disposed:
            terminated_before = bool(term)
            ncancel = sum(1 for e in world.events if e['kind'] == 'queue' and e['ep'] == 'c'
                          and e['f'].get('type') == 'CANCEL')
            done_before = any(e['kind'] == 'wire' and e['ep'] == 'c' and e['dir'] == 'recv' and e['f'].get('sid')
                              and (e['f']['type'] == 'ERROR' or (e['f']['type'] == 'PAYLOAD' and e['f'].get('complete')))
                              for e in world.events[:_dispose_index(world)])
            from .c09 import _terminal_received_before_cancel_queued as raced
            sid0 = next((e['f']['sid'] for e in world.events if e['kind'] == 'queue' and e['ep'] == 'c'
                         and e['f'].get('type', '').startswith('REQUEST_')), None)
            if not terminated_before and not done_before and ncancel != 1 and not (ncancel == 0 and raced(world, 'c', sid0, model == 'rr')):
                bad('disposal-did-not-send-exactly-one-cancel', cancel_frames=ncancel)
            cancel_recv = next((e['i'] for e in world.events if e['kind'] == 'wire' and e['ep'] == 's'
                                and e['dir'] == 'recv' and e['f'].get('type') == 'CANCEL'), None)
            finished_first = cancel_recv is None or any(
                e['kind'] == 'queue' and e['ep'] == 's' and e['f'].get('sid') and
                (e['f']['type'] == 'ERROR' or (e['f']['type'] == 'PAYLOAD' and e['f'].get('complete')))
                for e in world.events[:cancel_recv])
            if ncancel == 1 and d['handler_adapter'] and d['down_kind'] == 'bp' and not finished_first and \
                    'completed' not in res['down']['feedback']:
                bad('disposal-did-not-cancel-the-peers-source', feedback=res['down']['feedback'][:10])
            if cancel_recv is not None and d['handler_adapter'] and not finished_first:
                # once the CANCEL has been received the adapter's publisher stops handing elements to the library
                after = [e for e in world.events[cancel_recv:] if e['kind'] == 'queue' and e['ep'] == 's'
                         and e['f'].get('sid') and e['f']['type'] == 'PAYLOAD' and e['f'].get('next')]
                st['emission_after_cancel_checked'] = st.get('emission_after_cancel_checked', 0) + 1
                if after:
                    bad('handler-adapter-kept-emitting-after-cancel', elements_after_cancel=len(after),
                        source_kind=d['down_kind'])
            if ncancel == 1 and not d['handler_adapter'] and not finished_first:
                pub = world.inter[iid].get('publishers', {}).get(DIR_RESPONSE)
                if pub is not None and pub.subscriber is not None and not pub.finished and pub.cancel_calls == 0:
                    bad('disposal-did-not-cancel-the-peers-source', source='core publisher')
    else:
        if got_vals != want_vals:
            i = next((i for i, (a, b) in enumerate(zip(got_vals, want_vals)) if a != b), min(len(got_vals), len(want_vals)))
            bad('requester-elements-differ', got=len(got_vals), expected=len(want_vals), first_difference=i)
        elif term != [want_term]:
            bad('requester-terminal-differs', got=term, expected=want_term)
    # ---- channel upstream direction at the responder
    if model == 'channel' and d['up'] is not None and not disposed:
        uv, ut = truth(d['up'], d['up_error'], DIR_CHANNEL_UP)
        if d['handler_adapter']:
            so = res['server_obs']
            g, t = so.values, [x for x in so.log if x != 'on_next']
        else:
            us = world.inter[iid].get('up_subscriber')
            g = [v for v in us.values if v[0] or v[1]] if us else []
            t = ['on_completed' if x in ('on_complete', 'on_next_complete') else 'on_error' for x in (us.log if us else [])
                 if x in ('on_complete', 'on_next_complete', 'on_error')]
        st['observer_logs_compared'] += 1
        down_failed = d['down_error'] is not None
        if g != uv and not down_failed:
            bad('responder-elements-differ', got=len(g), expected=len(uv))
        elif t != [ut] and not down_failed and d['up_error'] is None:
            bad('responder-terminal-differs', got=t, expected=ut)
    # ---- credit: requester never has more than `limit` outstanding, every grant equals the limit
    if model in ('stream', 'channel'):
        limit = d['limit']
        granted = 0
        received = 0
        in_run = False
        for e in world.events:
            if e['kind'] != 'wire' or e['ep'] != 'c':
                continue
            f = e['f']
            if e['dir'] == 'send' and f['type'] in ('REQUEST_STREAM', 'REQUEST_CHANNEL'):
                granted = f['n']
                st['credit_windows_checked'] += 1
                if f['n'] != limit:
                    bad('initial-request-n-differs-from-limit', wire=f['n'], limit=limit)
            elif e['dir'] == 'send' and f['type'] == 'REQUEST_N' and f.get('sid'):
                # only grants for the response direction are made by the requester
                granted = min(MAXN, granted + f['n'])
                st['credit_windows_checked'] += 1
                if d.get('core_burst'):
                    continue        # the harness's own core subscriber grants 1..3 at a time here
                if f['n'] != limit:
                    bad('request-n-differs-from-limit', wire=f['n'], limit=limit)
                if limit < MAXN and granted - received > limit:
                    bad('outstanding-credit-exceeds-limit', outstanding=granted - received, limit=limit)
            elif e['dir'] == 'recv' and f['type'] == 'PAYLOAD':
                cont = in_run
                in_run = bool(f.get('follows'))
                if not cont and f.get('next'):
                    received += 1
        if model == 'channel' and d['up'] is not None and d['handler_adapter']:
            ul = d['up_limit']
            g = r_ = 0
            run = False
            for e in world.events:
                if e['kind'] != 'wire' or e['ep'] != 's' or not e['f'].get('sid'):
                    continue
                f = e['f']
                if e['dir'] == 'send' and f['type'] == 'REQUEST_N':
                    g = min(MAXN, g + f['n'])
                    st['credit_windows_checked'] += 1
                    if f['n'] != ul:
                        bad('responder-request-n-differs-from-limit', wire=f['n'], limit=ul)
                    if ul < MAXN and g - r_ > ul:
                        bad('responder-outstanding-credit-exceeds-limit', outstanding=g - r_, limit=ul)
                elif e['dir'] == 'recv' and f['type'] == 'PAYLOAD':
                    cont = run
                    run = bool(f.get('follows'))
                    if not cont and f.get('next'):
                        r_ += 1
        # responder's ledger
        w2, streams = c06.credit_monitor(world)
        for w in w2:
            w['detail']['scenario'] = d
            wit.append(w)
        # feedback subject of a back-pressure factory == credits received on the wire
        for side, rec_, direction, kind in (('s', res['down'], DIR_RESPONSE, d['down_kind']),
                                            ('c', res['up'], DIR_CHANNEL_UP, d['up_kind'])):
            if kind != 'bp':
                continue
            credits = []
            for e in world.events:
                if e['kind'] == 'wire' and e['ep'] == side and e['dir'] == 'recv' and e['f'].get('sid'):
                    f = e['f']
                    if side == 's' and f['type'] in ('REQUEST_STREAM', 'REQUEST_CHANNEL') and not credits:
                        credits.append(f['n'])
                    elif f['type'] == 'REQUEST_N':
                        credits.append(f['n'])
            fb = [x for x in rec_['feedback'] if x != 'completed']
            st['feedback_sequences_compared'] += 1
            if fb != credits[:len(fb)] or (len(fb) < len(credits) and 'completed' not in rec_['feedback']
                                           and not _finished(world, side)):
                bad('feedback-subject-differs-from-wire-credit', feedback=fb[:12], wire_credits=credits[:12], side=side)
    return wit, st


def _dispose_index(world):
    for e in world.events:
        if e['kind'] == 'obs' and e.get('ev') == 'dispose':
            return e['i']
        if e['kind'] == 'app_cancel':
            return e['i']
    return len(world.events)


def _finished(world, side):
    return any(e['kind'] == 'wire' and e['ep'] == side and e['dir'] == 'send' and e['f'].get('sid')
               and (e['f']['type'] == 'ERROR' or (e['f']['type'] == 'PAYLOAD' and e['f'].get('complete')))
               for e in world.events)


async def _refused(rng, d):
    """A request the core API refuses synchronously (lease-honouring client whose one-slot request queue is taken):
    through the Rx clients the refusal must arrive as on_error of that observable, and the request that holds the
    slot must still be served when the lease comes."""
    from rsocket.rsocket_client import RSocketClient
    from rsocket.rsocket_server import RSocketServer
    from .. import links
    from ..apps import World, ScriptedHandler, make_payload, DIR_REQUEST
    from ..pair import Driver
    from .c14 import ScriptedLeasePublisher
    R, ops, Subject, Client, Base, factory, Chan, bp = _mods(d['version'])
    world = World()
    driver = Driver(world, 1.0e5)
    link = links.make_link(d['link'], rng, None, None)
    link.tap.listeners.append(world.on_wire)
    hs = ScriptedHandler(world, 's', driver)
    server = RSocketServer(link.transports['s'], handler_factory=lambda: hs,
                           lease_publisher=ScriptedLeasePublisher([(d['lease_after'], 100, 60000)]))

    async def provider():
        yield link.transports['c']

    core = RSocketClient(provider(), keep_alive_period=timedelta(seconds=1e6), max_lifetime_period=timedelta(seconds=2e6),
                         honor_lease=True, request_queue_size=1)
    await core.connect()
    cl = Client(core)
    logs = []
    for iid in (1, 2):
        world.specs[iid] = {'iid': iid, 'model': d['model'], 'side': 'c',
                            'resp': {'elems': [(5, 0), (6, 0)], 'terminal': 'complete', 'pacing': ('tick',), 'source': 'rec',
                                     'size': (5, 0), 'outcome': 'ok'}, 'up': None}
        world.inter[iid] = {}
        ol = ObsLog(world, 'observer-%d' % iid)
        logs.append(ol)
        req = make_payload(iid, DIR_REQUEST, 0, 16, 0)
        try:
            o = cl.request_stream(req, request_limit=5) if d['model'] == 'stream' else cl.request_response(req)
            ol.subscription = o.subscribe(on_next=ol.on_next, on_error=ol.on_error, on_completed=ol.on_completed)
        except Exception as e:
            # refused at the call itself, exactly like the core API: as good as on_error
            ol.log.append('call-raised')
            world.log('obs', who=ol.who, ev='call-raised', err=repr(e)[:60])
        await asyncio.sleep(d['gap'])
    await asyncio.sleep(d['lease_after'] + 5.0)
    frozen = [list(x.log) for x in logs]
    await core.close()
    await server.close()
    link.stop()
    return frozen, world


def run_refused(idx, rng):
    from .. import vloop
    from ..runner import short_hash
    from ..pair import trace_excerpt
    d = {'version': rng.choice(['rx3', 'rx4']), 'link': rng.choice(ANY_LINK),
         'model': rng.choice(['stream', 'stream', 'rr']), 'gap': rng.choice([0.0, 0.01, 0.2]),
         'lease_after': rng.choice([1.0, 3.0])}
    logs, world = vloop.run(_refused(rng, d))
    wit = []
    want_first = ['on_next', 'on_next', 'on_completed'] if d['model'] == 'stream' else ['on_next', 'on_completed']
    st = {'observer_logs_compared': 2, 'credit_windows_checked': 0, 'feedback_sequences_compared': 0, 'disposals_checked': 0,
          'delegate_calls_checked': 0, 'refused_requests_checked': 1}
    if logs[1] not in (['on_error'], ['call-raised']):
        wit.append({'clause': 'refused-request-not-reported-as-on_error',
                    'detail': {'scenario': d, 'observer_of_refused_request': logs[1], 'trace': trace_excerpt(world, 60)[-40:]}})
    if logs[0] != want_first:
        wit.append({'clause': 'queued-request-not-served-after-the-lease',
                    'detail': {'scenario': d, 'observer_of_queued_request': logs[0], 'expected': want_first,
                               'trace': trace_excerpt(world, 60)[-40:]}})
    return {'evals': 1, 'nt_keys': [short_hash(d)], 'deciding': st, 'witnesses': wit, 'sigs': [world.signature()],
            'counts': {'refused_runs': 1}, 'sample': d}


def run_case(gen, idx, rng, tier):
    assert_repo()
    from .. import vloop
    from ..runner import short_hash
    if gen == 'refused':
        return run_refused(idx, rng)
    d = gen_scenario(rng, single=(gen == 'single'))
    res = vloop.run(_scenario(rng, d))
    wit, st = judge(d, res)
    seen = set()
    ws = []
    for w in wit:
        k = (w['clause'], classify(w))
        if k not in seen:
            seen.add(k)
            ws.append(w)
    nt = d['model'] in ('stream', 'channel') and len(d['down']) >= 2 and d['limit'] < len(d['down'])
    return {'evals': 1, 'nt_keys': [short_hash(d)] if nt else [], 'deciding': st, 'witnesses': ws[:4],
            'sigs': [res['world'].signature()],
            'counts': {'version_' + d['version']: 1, 'kind_' + d['down_kind']: 1,
                       'mode_' + ('both' if d['client_adapter'] and d['handler_adapter'] else
                                  ('client' if d['client_adapter'] else 'handler')): 1},
            'sample': d}


def classify(w):
    return None
