"""C13 Stream ids: right parity, never zero, never a live id, wrap-around.

E-alloc: histories of allocate / register / finish against a reference allocator,
exhaustively on reduced id spaces (DFS) and randomly near the wrap point of the
full 31-bit space.  E-wire / E-dup: see c13 wire generators (real endpoints).
"""
import copy

from .. import assert_repo

ID = 'C13'
LEVEL = 'exploration'
RULE = ('alloc-dfs: every history over {allocate+register, allocate-only, finish i-th active, register peer id x} '
        'up to the depth bound on id spaces 0x7/0xF, both parities, enumerated without repetition (each node of the '
        'DFS is one distinct history; non-trivial = the history contains at least one allocation made while another '
        'id is active); alloc-random: seeded random histories of 2000 operations started just below the wrap point '
        '(non-trivial = wrapped at least once with active ids); wire/dup: real endpoints, see generators')
EXHAUSTIVE_GENS = ('alloc-dfs', 'dup-id')
ASSUMPTIONS = ['id space is lowered through StreamControl._maximum_stream_id, as the repository\'s own tests do',
               'reference allocator written from the property statement']
DECIDING_REQUIRED = ('allocations_compared', 'wraps_seen', 'exhaustion_agreed', 'dup_request_rejected',
                     'request_ids_checked', 'wire_wraps_seen', 'ids_skipped_because_active')

DEPTH = {'quick': 7, 'thorough': 9}
PREFIX = 2


class RefAlloc:
    """From the last id handed out, step +2 modulo the id space, skipping 0 and active ids."""

    def __init__(self, first, mask):
        self.mask = mask
        self.parity = first & 1
        self.last = (first - 2) & mask
        self.active = set()

    def allocate(self):
        cur = self.last
        size = self.mask + 1
        for _ in range(size // 2):
            cur = (cur + 2) % size
            if cur != 0 and cur not in self.active:
                self.last = cur
                return cur
        # no id of our parity is free
        self.last = cur
        return None

    def free_exists(self):
        return any(i != 0 and i not in self.active for i in range(self.parity, self.mask + 1, 2))


def _ops(ref, mask):
    ops = [('A',), ('a',)]
    for i, sid in enumerate(sorted(ref.active)):
        ops.append(('F', sid))
    # peer registrations: smallest free id of each parity (hostile peer may use ours)
    for par in (0, 1):
        for x in range(par, mask + 1, 2):
            if x != 0 and x not in ref.active:
                ops.append(('R', x))
                break
    return ops


def _apply(sc, ref, op, exc_cls):
    """Apply op to implementation and model; return witness dict or None, plus stats."""
    kind = op[0]
    if kind in 'Aa':
        exp = ref.allocate()
        try:
            got = sc.allocate_stream()
        except exc_cls:
            got = None
        if got != exp:
            return {'clause': 'alloc-differs-from-reference', 'detail': {'expected': exp, 'got': got}}
        if got is not None:
            if got == 0 or (got & 1) != ref.parity or got in ref.active or got > ref.mask:
                return {'clause': 'alloc-illegal-id', 'detail': {'got': got}}
            if kind == 'A':
                sc.register_stream(got, object())
                ref.active.add(got)
        return None
    if kind == 'F':
        sc.finish_stream(op[1])
        ref.active.discard(op[1])
        return None
    if kind == 'R':
        sc.register_stream(op[1], object())
        ref.active.add(op[1])
        return None


def _mk(first, mask):
    from rsocket.stream_control import StreamControl
    sc = StreamControl(first)
    sc._maximum_stream_id = mask
    return sc


def _clone(sc):
    c = copy.copy(sc)
    c._streams = dict(sc._streams)
    return c


def _dfs_case(first, mask, prefix, depth):
    from rsocket.exceptions import RSocketStreamAllocationFailure as EXC
    stats = {'nodes': 0, 'nt': 0, 'allocs': 0, 'wraps': 0, 'exhaust': 0}
    witnesses = []
    sc = _mk(first, mask)
    ref = RefAlloc(first, mask)
    hist = []
    # replay prefix (indices into the op list at each step)
    for pi in prefix:
        ops = _ops(ref, mask)
        if pi >= len(ops):
            return stats, witnesses, None   # prefix does not exist in this space
        op = ops[pi]
        w = _apply(sc, ref, op, EXC)
        hist.append(op)
        if w:
            w['detail']['history'] = list(hist)
            witnesses.append(w)
            return stats, witnesses, hist

    def rec(sc, ref, hist, nt):
        if witnesses:
            return
        stats['nodes'] += 1
        if nt:
            stats['nt'] += 1
        if len(hist) >= depth:
            return
        for op in _ops(ref, mask):
            sc2 = _clone(sc)
            ref2 = copy.copy(ref)
            ref2.active = set(ref.active)
            before = ref2.last
            had_active = bool(ref2.active)
            w = _apply(sc2, ref2, op, EXC)
            h2 = hist + [op]
            if op[0] in 'Aa':
                stats['allocs'] += 1
                if ref2.last <= before and had_active:
                    stats['wraps'] += 1
                if not ref2.free_exists() and op[0] == 'A':
                    pass
            if w:
                w['detail']['history'] = h2
                w['detail']['space'] = mask
                w['detail']['first'] = first
                witnesses.append(w)
                return
            rec(sc2, ref2, h2, nt or (op[0] in 'Aa' and had_active))

    rec(sc, ref, hist, False)
    return stats, witnesses, hist


def _exhaustion_case(first, mask):
    """Fill the whole parity class and check failure/non-failure at the edge."""
    from rsocket.exceptions import RSocketStreamAllocationFailure as EXC
    sc = _mk(first, mask)
    ref = RefAlloc(first, mask)
    n = 0
    while True:
        exp = ref.allocate()
        try:
            got = sc.allocate_stream()
        except EXC:
            got = None
        if got != exp:
            return n, {'clause': 'alloc-differs-from-reference',
                       'detail': {'expected': exp, 'got': got, 'space': mask, 'first': first, 'filled': n}}
        if got is None:
            break
        sc.register_stream(got, object())
        ref.active.add(got)
        n += 1
        if n > mask:
            return n, {'clause': 'alloc-never-fails', 'detail': {'space': mask}}
    # free one in the middle: allocation must succeed again and return exactly it
    victim = sorted(ref.active)[len(ref.active) // 2]
    sc.finish_stream(victim)
    ref.active.discard(victim)
    exp = ref.allocate()
    try:
        got = sc.allocate_stream()
    except EXC:
        got = None
    if got != exp or got != victim:
        return n, {'clause': 'alloc-fails-although-free', 'detail': {'expected': exp, 'got': got, 'free': victim,
                                                                      'space': mask, 'first': first}}
    return n, None


def _random_case(rng, first, mask, start_below, nops):
    from rsocket.exceptions import RSocketStreamAllocationFailure as EXC
    sc = _mk(first, mask)
    ref = RefAlloc(first, mask)
    start = (mask + 1 - start_below) & mask
    if (start & 1) != (first & 1):
        start = (start - 1) & mask
    sc._current_stream_id = start
    ref.last = start
    stats = {'allocs': 0, 'wraps': 0}
    for i in range(nops):
        x = rng.random()
        if x < 0.55 or not ref.active:
            op = ('A',) if rng.random() < 0.8 else ('a',)
        elif x < 0.9:
            op = ('F', rng.choice(sorted(ref.active)))
        else:
            cand = rng.randrange(1, min(mask, 64) + 1)
            if rng.random() < 0.5:
                cand = (ref.last + 2 * rng.randrange(1, 4)) & mask
            if cand == 0 or cand in ref.active:
                continue
            op = ('R', cand)
        before = ref.last
        w = _apply(sc, ref, op, EXC)
        if op[0] in 'Aa':
            stats['allocs'] += 1
            if ref.last < before and ref.active:
                stats['wraps'] += 1
        if w:
            w['detail'].update({'space': mask, 'first': first, 'op_index': i, 'op': op})
            return stats, w
        if len(ref.active) > 40:
            for sid in sorted(ref.active)[:20]:
                sc.finish_stream(sid)
                ref.active.discard(sid)
    return stats, None


_SPACES = (0x7, 0xF)


def _dfs_prefixes():
    out = []
    for mask in _SPACES:
        for first in (1, 2):
            for a in range(6):
                for b in range(7):
                    out.append((first, mask, (a, b)))
    return out


def plan(tier, seed):
    from . import c13_wire
    p = [('alloc-dfs', len(_dfs_prefixes())),
         ('alloc-exhaustion', 8),
         ('alloc-random', 64 if tier == 'quick' else 1024)]
    p += c13_wire.plan(tier, seed)
    return p


def run_case(gen, idx, rng, tier):
    assert_repo()
    if gen == 'alloc-dfs':
        first, mask, prefix = _dfs_prefixes()[idx]
        stats, wit, hist = _dfs_case(first, mask, prefix, DEPTH[tier])
        return {'evals': max(1, stats['nodes']), 'nt_count': stats['nt'],
                'counts': {'alloc_histories': stats['nodes'], 'allocations': stats['allocs']},
                'deciding': {'allocations_compared': stats['allocs'], 'wraps_seen': stats['wraps']},
                'witnesses': wit,
                'sample': {'space': mask, 'first_id': first, 'prefix_ops': hist, 'depth': DEPTH[tier],
                           'histories_below': stats['nodes']}}
    if gen == 'alloc-exhaustion':
        mask = (0x7, 0xF, 0x7F, 0x1FF)[idx % 4]
        first = 1 + (idx // 4)
        n, w = _exhaustion_case(first, mask)
        return {'evals': 1, 'nt_keys': ['exh-%d-%d' % (mask, first)],
                'deciding': {'exhaustion_agreed': 0 if w else 1},
                'counts': {'ids_filled': n},
                'witnesses': [w] if w else [],
                'sample': {'space': mask, 'first_id': first, 'filled': n}}
    if gen == 'alloc-random':
        mask = rng.choice((0x7F, 0x7FFFFFFF, 0x7FFFFFFF, 0xFF))
        first = rng.choice((1, 2))
        below = rng.choice((2, 4, 6, 10, 30))
        stats, w = _random_case(rng, first, mask, below, 2000)
        return {'evals': 1, 'nt_keys': ['rnd-%d' % idx] if stats['wraps'] else [],
                'deciding': {'allocations_compared': stats['allocs'], 'wraps_seen': stats['wraps']},
                'counts': {'allocations': stats['allocs']},
                'witnesses': [w] if w else [],
                'sample': {'space': mask, 'first_id': first, 'start_below_wrap': below, **stats}}
    from . import c13_wire
    return c13_wire.run_case(gen, idx, rng, tier)


def classify(w):
    return None
