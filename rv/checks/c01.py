"""C01 End-to-end payload delivery and request/response correlation."""
from .. import assert_repo

ID = 'C01'
LEVEL = 'exploration'
RULE = ('mix: a seeded case = link configuration (byte-stream or message framing, fragment size per side, latency / '
        'chunking / read-size / drain / pacing knobs) + 1..6 scripted interactions per side over the five models with '
        'self-describing payloads, all running to completion; the ledger of everything handed to the library vs '
        'everything delivered by it is checked offline. non-trivial = >= 2 interactions whose lifetimes overlap on '
        'the wire AND (>= 1 fragmented frame OR reads not aligned with frames); distinct by case descriptor digest; '
        'schedule signatures are digests of the merged wire+API event order.')
ASSUMPTIONS = ['request payloads carry an 8-byte harness header in data or metadata (needed to correlate at the '
               'responder); element/response payloads are arbitrary, including 0- and 1-byte parts',
               'ByteLink runs the real TransportTCP on a StreamReader/in-memory writer; MsgLink reproduces the receive '
               'lines shared by the websocket transports; aiohttp/quart/QUIC glue is not executed']
DECIDING_REQUIRED = ('payloads_emitted', 'payloads_delivered', 'runs_with_concurrent_streams',
                     'runs_with_fragmentation', 'fragmented_frames_seen')
MAXN = 0x7FFFFFFF
BUDGET_S = {'quick': 100, 'thorough': 1800}


def plan(tier, seed):
    return [('mix', 2400 if tier == 'quick' else 60000)]


def _nonempty(keys):
    return [k for k in keys if k is not None and (k[0] or k[1])]


def ledger_check(world, specs, witnesses, counts, require_complete=True):
    """Offline check of the delivery ledger.  Appends witness dicts."""
    from ..apps import DIR_RESPONSE, DIR_CHANNEL_UP, pbrief
    from ..pair import trace_excerpt

    def bad(clause, iid, **kw):
        spec = world.specs.get(iid)
        d = {'iid': iid, 'model': spec and spec['model'], 'side': spec and spec['side']}
        d.update(kw)
        d['trace'] = trace_excerpt(world, 60, iid)
        witnesses.append({'clause': clause, 'detail': d})

    un = [k for k in world.inter if isinstance(k, tuple) and k[0] == 'unidentified']
    for k in un:
        for model, pk, side in world.inter[k].get('request_deliveries', []):
            bad('request-delivered-unidentifiable', None, model=model, payload=pbrief(pk), at=side)
    for spec in specs:
        iid = spec['iid']
        st = world.inter[iid]
        model = spec['model']
        other = 's' if spec['side'] == 'c' else 'c'
        res = st.get('result')
        if res and res[0] == 'call-raised':
            bad('api-call-raised', iid, error=res[1])
            continue
        # 1. the request itself
        dels = st.get('request_deliveries', [])
        counts['payloads_emitted'] += 1
        if len(dels) == 0:
            bad('request-not-delivered', iid, result=res)
        else:
            counts['payloads_delivered'] += len(dels)
            if len(dels) > 1:
                bad('request-delivered-more-than-once', iid, deliveries=len(dels))
            m, pk, at = dels[0]
            if m != model:
                bad('request-delivered-to-wrong-handler', iid, got=m)
            if at != other:
                bad('request-delivered-at-wrong-endpoint', iid, at=at)
            if pk != st.get('request'):
                bad('request-payload-corrupted', iid, expected=pbrief(st.get('request')), got=pbrief(pk))
        if model in ('fnf', 'push'):
            if require_complete and res != ('sent',):
                bad('send-future-not-resolved', iid, result=res)
            if model == 'fnf':
                # "sent" means the whole frame was handed to the transport: an application that closes the connection
                # as soon as the future resolves must not lose the rest of a fragmented payload
                from .c14 import _iid_of
                resolved = next((e['i'] for e in world.events if e['kind'] == 'sent_future_resolved' and e.get('iid') == iid),
                                None)
                first = next((e for e in world.events if e['kind'] == 'wire' and e['dir'] == 'send'
                              and e['ep'] == spec['side'] and e['f'].get('type') == 'REQUEST_FNF' and _iid_of(e['f']) == iid),
                             None)
                if resolved is not None and first is not None:
                    counts['sent_futures_checked'] = counts.get('sent_futures_checked', 0) + 1
                    last = first['i']
                    if first['f'].get('follows'):
                        for e in world.events[first['i'] + 1:]:
                            if e['kind'] == 'wire' and e['dir'] == 'send' and e['ep'] == spec['side'] \
                                    and e['f'].get('sid') == first['f']['sid']:
                                last = e['i']
                                if not e['f'].get('follows'):
                                    break
                    if resolved < last:
                        bad('send-future-resolved-before-the-frame-was-written', iid,
                            fragments_still_to_write=sum(1 for e in world.events[resolved:last + 1]
                                                         if e['kind'] == 'wire' and e['dir'] == 'send'
                                                         and e['f'].get('sid') == first['f']['sid']))
            continue
        if model == 'rr':
            emitted = st.get('emitted', {}).get(DIR_RESPONSE, [])
            counts['payloads_emitted'] += len(_nonempty(emitted))
            if res is None or res[0] == 'pending':
                if require_complete:
                    bad('response-not-delivered', iid, result=res)
                continue
            if res[0] == 'result':
                counts['payloads_delivered'] += 1 if (res[1][0] or res[1][1]) else 0
                want = emitted[0] if emitted else None
                if want is None or res[1] != want:
                    bad('response-differs-or-not-own', iid, expected=pbrief(want), got=pbrief(res[1]))
            elif require_complete:
                bad('response-replaced-by-error', iid, result=res)
            continue
        # stream / channel
        for direction, sub_key, cfg, holder in ((DIR_RESPONSE, 'subscriber', spec.get('resp'), 'resp'),
                                                (DIR_CHANNEL_UP, 'up_subscriber', spec.get('up'), 'up')):
            if direction == DIR_CHANNEL_UP and model != 'channel':
                continue
            if cfg is None:
                continue
            if direction == DIR_RESPONSE and model == 'channel' and not cfg.get('publisher', True):
                continue
            pub = st.get('publishers', {}).get(direction)
            gsrc = st.get('gen_sources', {}).get(direction)
            emitted = pub.emitted if pub is not None else (gsrc['emitted'] if gsrc else [])
            sub = st.get(sub_key)
            got = sub.values if sub is not None else []
            e, g = _nonempty(emitted), _nonempty(got)
            counts['payloads_emitted'] += len(e)
            counts['payloads_delivered'] += len(g)
            if g != e:
                if len(g) < len(e) and g == e[:len(g)]:
                    if require_complete:
                        bad('elements-lost', iid, direction=direction, emitted=len(e), delivered=len(g))
                elif len(g) > len(e) and g[:len(e)] == e:
                    bad('elements-duplicated-or-foreign', iid, direction=direction, emitted=len(e), delivered=len(g),
                        extra=[pbrief(x) for x in g[len(e):][:3]])
                else:
                    i = next((i for i, (a, b) in enumerate(zip(g, e)) if a != b), min(len(g), len(e)))
                    foreign = None
                    if i < len(g):
                        foreign = _owner_of(world, g[i])
                    bad('elements-differ-or-reordered', iid, direction=direction, index=i, emitted=len(e),
                        delivered=len(g), expected=pbrief(e[i]) if i < len(e) else None,
                        got=pbrief(g[i]) if i < len(g) else None, got_belongs_to=foreign)
            if require_complete and sub is not None:
                term = [x for x in sub.log if x in ('on_complete', 'on_error', 'on_next_complete')]
                expected_terminal = cfg.get('terminal', 'complete')
                if expected_terminal in ('complete', 'flag') and not any(t in ('on_complete', 'on_next_complete')
                                                                          for t in term):
                    bad('completion-not-delivered', iid, direction=direction, log_tail=sub.log[-4:])
            elif require_complete and sub is None and direction == DIR_CHANNEL_UP:
                bad('request-not-delivered', iid, note='no responder-side subscriber was created')


def _owner_of(world, key):
    for iid, st in world.inter.items():
        if not isinstance(st, dict):
            continue
        for pub in st.get('publishers', {}).values():
            if key in pub.emitted:
                return iid
        for g in st.get('gen_sources', {}).values():
            if key in g['emitted']:
                return iid
    return None


def wire_stats(world):
    fragmented = 0
    streams_open = {}
    concurrent = False
    for e in world.events:
        if e['kind'] != 'wire' or e['dir'] != 'send':
            continue
        f = e['f']
        if f.get('follows'):
            fragmented += 1
        sid = f.get('sid', 0)
        if sid:
            t = f['type']
            key = (e['ep'] if t.startswith('REQUEST_') and t != 'REQUEST_N' else None, sid)
            if t in ('REQUEST_RESPONSE', 'REQUEST_STREAM', 'REQUEST_CHANNEL'):
                streams_open[sid] = True
                if sum(1 for v in streams_open.values() if v) >= 2:
                    concurrent = True
            elif t in ('ERROR', 'CANCEL') or (t == 'PAYLOAD' and f.get('complete') and not f.get('follows')):
                streams_open[sid] = False
    return fragmented, concurrent


def gen_case(rng, tier):
    from .. import mixgen
    cfg = mixgen.draw_config(rng, links_allowed=mixgen.WITH_WS)
    if rng.random() < 0.12:
        cfg['lease'] = mixgen.draw_leases(rng)
    n_c = rng.choice([0, 1, 1, 2, 3, 6])
    n_s = rng.choice([0, 1, 1, 2, 3, 6])
    if n_c + n_s == 0:
        n_c = 2
    big = 0.02 if tier == 'quick' else 0.04
    specs = []
    iid = 1
    for side, n in (('c', n_c), ('s', n_s)):
        for _ in range(n):
            sp = mixgen.draw_spec(rng, iid, cfg, side=side, big=big)
            if sp['model'] in ('stream', 'channel') and rng.random() < 0.15:
                sp['requester'] = 'collector'      # AwaitableRSocket + CollectorSubscriber as the requesting application
                sp['n0'] = rng.choice([1, 2, 3, 7, MAXN])
            specs.append(sp)
            iid += 1
    return cfg, specs


async def _run(rng, cfg, specs):
    from ..pair import Pair
    p = Pair(rng, cfg)
    # virtual time is free: a slow link (50 ms per 4-byte chunk) may need hours of it for a 70 kB payload
    p.driver.horizon = 1.0e6
    await p.start()
    await p.run_specs(specs)
    await p.close()
    return p


def run_case(gen, idx, rng, tier):
    assert_repo()
    from .. import vloop, mixgen
    from ..runner import short_hash
    cfg, specs = gen_case(rng, tier)
    p = vloop.run(_run(rng, cfg, specs))
    world = p.world
    witnesses = []
    counts = {'payloads_emitted': 0, 'payloads_delivered': 0}
    ledger_check(world, specs, witnesses, counts)
    fragmented, concurrent = wire_stats(world)
    unaligned = any(k.chunking[0] != 'whole' or k.read_buffer_size < 64 for k in (cfg['knobs_c'], cfg['knobs_s'])) \
        and cfg['link'] == 'bytes'
    desc = {'config': mixgen.describe_cfg(cfg), 'interactions': specs}
    nontrivial = len(specs) >= 2 and concurrent and (fragmented > 0 or unaligned)
    deciding = dict(counts)
    deciding['runs_with_concurrent_streams'] = 1 if concurrent else 0
    deciding['runs_with_fragmentation'] = 1 if fragmented else 0
    deciding['fragmented_frames_seen'] = fragmented
    ev = {'wire_frames': sum(1 for e in world.events if e['kind'] == 'wire'),
          'api_events': sum(1 for e in world.events if e['kind'] != 'wire'),
          'runs_' + cfg['link']: 1, 'runs_with_lease_gating': 1 if cfg.get('lease') else 0}
    for s in specs:
        ev['interactions_%s_%s' % (s['model'], s['side'])] = ev.get('interactions_%s_%s' % (s['model'], s['side']), 0) + 1
    seen = set()
    ws = []
    for w in witnesses:
        k = (w['clause'], classify(w))
        if k not in seen:
            seen.add(k)
            w['detail']['config'] = desc['config']
            ws.append(w)
    return {'evals': 1, 'nt_keys': [short_hash(desc)] if nontrivial else [], 'sigs': [world.signature()],
            'deciding': deciding, 'counts': ev, 'witnesses': ws, 'sample': desc}


def classify(w):
    return None
