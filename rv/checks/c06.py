"""C06 Request-n flow control: emission never exceeds granted credit."""
from .. import assert_repo

ID = 'C06'
LEVEL = 'exploration'
RULE = ('credit: seeded E-mix cases in which every producing side is one of the library\'s own sources (generator, '
        'async generator, Rx v3 / ReactiveX v4 plain observable, back-pressure factory): element counts 0..50, initial '
        'n in {1,2,3,count-1,count,count+1,2^31-1}, REQUEST_N sequences from refill / late-refill policies with link '
        'latency and producer pacing so that credit lands before, during and after production. The credit ledger is '
        'evaluated from the producing endpoint\'s own tap after every send. non-trivial = a stream on which credit '
        'arrived in >= 2 instalments and >= 2 elements were sent; distinct by case descriptor digest.')
ASSUMPTIONS = ['credit received = initial n of the request frame (counted from its first fragment) + REQUEST_N frames, '
               'saturating at 2^31-1; an element = a PAYLOAD carrying the next flag that is not a continuation fragment',
               'stream ids of interactions are read from the requester handle\'s stream_id attribute']
DECIDING_REQUIRED = ('elements_sent_checked', 'streams_with_late_credit', 'request_n_values_compared',
                     'streams_stalled_then_resumed')
BUDGET_S = {'quick': 100, 'thorough': 1800}
MAXN = 0x7FFFFFFF

SOURCES = ['gen', 'agen', 'rx4', 'rx4bp', 'rx3', 'rx3bp']


def plan(tier, seed):
    return [('credit', 6000 if tier == 'quick' else 80000)]


def credit_monitor(world):
    """Online credit ledger over each endpoint's local wire view.  Returns (witnesses, stats, per-stream table)."""
    from ..minicodec import brief
    wit = []
    streams = {}

    def get(ep, sid):
        return streams.setdefault((ep, sid), {'credit': 0, 'sent': 0, 'in_run': False, 'instalments': 0,
                                              'role': None, 'recent': [], 'max_wait_credit': 0, 'exhausted_at': None,
                                              'resumed': 0, 'closed': False})

    for e in world.events:
        if e['kind'] != 'wire':
            continue
        f = e['f']
        sid = f.get('sid', 0)
        if not sid:
            continue
        ep = e['ep']
        t = f['type']
        if e['dir'] == 'recv':
            if t in ('REQUEST_STREAM', 'REQUEST_CHANNEL'):
                s = get(ep, sid)
                if s['role'] is None:
                    s['role'] = 'responder'
                    s['credit'] = min(MAXN, f.get('n', 0))
                    s['instalments'] = 1
                    s['recent'].append('recv ' + brief(f))
            elif t == 'REQUEST_N' and (ep, sid) in streams:
                s = streams[(ep, sid)]
                if s['exhausted_at'] is not None and s['sent'] >= s['credit']:
                    s['resumed'] += 1
                s['credit'] = min(MAXN, s['credit'] + f.get('n', 0))
                s['instalments'] += 1
                s['recent'].append('recv ' + brief(f))
        else:
            if t == 'REQUEST_CHANNEL':
                s = get(ep, sid)
                if s['role'] is None:
                    s['role'] = 'channel-requester'
                    s['in_run'] = bool(f.get('follows'))     # the fragments of the request itself are no elements
            elif t == 'PAYLOAD' and (ep, sid) in streams:
                s = streams[(ep, sid)]
                cont = s['in_run']
                s['in_run'] = bool(f.get('follows'))
                if cont or not f.get('next'):
                    continue
                s['sent'] += 1
                s['recent'].append('send ' + brief(f))
                if s['credit'] < MAXN and s['sent'] > s['credit']:
                    wit.append({'clause': 'element-sent-beyond-credit',
                                'detail': {'endpoint': ep, 'stream': sid, 'role': s['role'], 'credit_received': s['credit'],
                                           'elements_sent': s['sent'], 'recent': s['recent'][-8:]}})
                if s['sent'] >= s['credit']:
                    s['exhausted_at'] = e['i']
    return wit, streams


def gen_case(rng, tier):
    from .. import mixgen
    cfg = mixgen.draw_config(rng, links_allowed=mixgen.WITH_WS, frags=(None, None, 64, 100))
    if rng.random() < 0.15:
        # a lease-honouring client: its requests wait for the server's (small, then unlimited) leases
        cfg['lease'] = mixgen.draw_leases(rng)
    specs = []
    iid = 1
    for side in 'cs':
        for _ in range(rng.choice([0, 1, 1, 2])):
            model = rng.choice(['stream', 'stream', 'channel'])
            count = rng.choice([0, 1, 2, 3, 5, 8, 13, rng.randrange(0, 51)])

            def elems(n):
                return [(rng.choice([1, 3, 9, 40, 200]), rng.choice([0, 0, 5])) for _ in range(n)]

            def credit(n):
                n0 = rng.choice([1, 2, 3, max(1, n - 1), max(1, n), n + 1, MAXN])
                x = rng.random()
                if x < 0.4:
                    pol = ('refill', rng.choice([1, 1, 2, 3, 7, MAXN]), 0)
                elif x < 0.8:
                    pol = ('late', rng.choice([1, 2, 5, MAXN]), 0, rng.choice([('ticks', 1), ('ticks', 4), ('virtual', 1e-3),
                                                                             ('virtual', 0.05), ('virtual', 1.0)]))
                else:
                    pol = ('refill', rng.choice([2, 5]), 1) if n0 > 1 else ('refill', 1, 0)
                return n0, pol

            spec = {'iid': iid, 'side': side, 'model': model, 'start': mixgen.draw_wait(rng),
                    'req': rng.choice([(12, 0), (12, 0), (12, 0), (150, 0), (300, 40), (40, 200)])}
            spec['resp'] = {'elems': elems(count), 'terminal': rng.choice(['complete', 'complete', 'flag', 'error']),
                            'pacing': mixgen.draw_pacing(rng), 'source': rng.choice(SOURCES),
                            'handler_delay': mixgen.draw_wait(rng)}
            spec['n0'], spec['policy'] = credit(count)
            if spec['n0'] < MAXN and rng.random() < 0.3:
                # credit granted synchronously inside on_subscribe / right behind the request frame
                if rng.random() < 0.6:
                    spec['ros'] = rng.choice([1, 2, 5, count + 1])
                else:
                    spec['extra_requests'] = [rng.choice([1, 2, 5])] * rng.choice([1, 2])
            elif rng.random() < 0.2:
                # the library's own CollectorSubscriber (AwaitableRSocket) as the granting application
                spec['requester'] = 'collector'
                spec['n0'] = rng.choice([1, 2, 3, 5, max(1, count), MAXN])
            if model == 'channel':
                ucount = rng.choice([0, 1, 2, 5, 13, rng.randrange(0, 51)])
                spec['up'] = {'elems': elems(ucount), 'terminal': rng.choice(['complete', 'complete', 'flag']),
                              'pacing': mixgen.draw_pacing(rng), 'source': rng.choice(SOURCES)}
                spec['resp']['up_n0'], spec['resp']['up_policy'] = credit(ucount)
            specs.append(spec)
            iid += 1
    if not specs:
        return gen_case(rng, tier)
    return cfg, specs


async def _run(rng, cfg, specs):
    from ..pair import Pair
    p = Pair(rng, cfg)
    p.driver.horizon = 1.0e5
    await p.start()
    await p.run_specs(specs)
    sids = {}
    from .c14 import _iid_of
    by_wire = {}
    for e in p.world.events:
        if e['kind'] == 'wire' and e['dir'] == 'send' and e['f'].get('type') in ('REQUEST_STREAM', 'REQUEST_CHANNEL'):
            i = _iid_of(e['f'])
            if i is not None:
                by_wire.setdefault(i, e['f']['sid'])
    for s in specs:
        h = p.world.inter[s['iid']].get('stream_handle')
        # (interactions driven through AwaitableRSocket have no handle: their stream id is read off the wire)
        sids[s['iid']] = getattr(h, 'stream_id', None) or by_wire.get(s['iid'])
    await p.close()
    return p, sids


def run_case(gen, idx, rng, tier):
    assert_repo()
    from .. import vloop, mixgen
    from ..runner import short_hash
    from ..pair import trace_excerpt
    from ..apps import DIR_RESPONSE, DIR_CHANNEL_UP
    cfg, specs = gen_case(rng, tier)
    p, sids = vloop.run(_run(rng, cfg, specs))
    world = p.world
    wit, streams = credit_monitor(world)
    st = {'elements_sent_checked': sum(s['sent'] for s in streams.values()),
          'streams_with_late_credit': sum(1 for s in streams.values() if s['instalments'] >= 2),
          'streams_stalled_then_resumed': sum(1 for s in streams.values() if s['resumed']),
          'request_n_values_compared': 0}
    desc = {'config': mixgen.describe_cfg(cfg), 'interactions': specs}
    for w in wit:
        w['detail']['trace'] = [x for x in trace_excerpt(world, 400) if ('(%d' % w['detail']['stream']) in x][:50]
    # application-granted credit must be transmitted with exactly that value; every element must be delivered
    for spec in specs:
        iid = spec['iid']
        sid = sids.get(iid)
        inter = world.inter[iid]
        if sid is None:
            continue
        req_ep = spec['side']
        resp_ep = 's' if req_ep == 'c' else 'c'
        checks = [(req_ep, inter.get('subscriber'), spec['n0'], DIR_RESPONSE, resp_ep, spec['resp'])]
        if spec['model'] == 'channel' and spec.get('up') is not None:
            checks.append((resp_ep, inter.get('up_subscriber'), None, DIR_CHANNEL_UP, req_ep, spec['up']))
        for ep, sub, n0, direction, producer_ep, pcfg in checks:
            if sub is None:
                continue
            sent_n = []
            first = None
            for e in world.events:
                if e['kind'] == 'wire' and e['dir'] == 'send' and e['ep'] == ep and e['f'].get('sid') == sid:
                    f = e['f']
                    if f['type'] in ('REQUEST_STREAM', 'REQUEST_CHANNEL') and first is None:
                        first = f.get('n')
                    elif f['type'] == 'REQUEST_N':
                        sent_n.append(f.get('n'))
            if sub.requests is None:
                # CollectorSubscriber(limit_rate=n0): grants n0 again each time n0 elements (not flagged complete) arrived
                got_n = 0
                cont = False
                for e in world.events:
                    if e['kind'] == 'wire' and e['dir'] == 'recv' and e['ep'] == ep and e['f'].get('sid') == sid \
                            and e['f']['type'] == 'PAYLOAD':
                        was = cont
                        cont = bool(e['f'].get('follows'))
                        if not was and e['f'].get('next') and not cont and not e['f'].get('complete'):
                            got_n += 1
                        elif not was and e['f'].get('next') and cont:
                            got_n += 1 if not _run_ends_complete(world, e, ep, sid) else 0
                expected = [n0] * (got_n // n0) if n0 < MAXN else []
                st['request_n_values_compared'] += len(expected) + 1
                if first is not None and first != n0:
                    wit.append({'clause': 'initial-request-n-differs',
                                'detail': {'iid': iid, 'stream': sid, 'application': n0, 'wire': first}})
                if sent_n != expected:
                    wit.append({'clause': 'request-n-values-differ',
                                'detail': {'iid': iid, 'stream': sid, 'endpoint': ep, 'collector_limit_rate': n0,
                                           'elements_received': got_n, 'expected_request_n': expected[:12],
                                           'wire_request_n': sent_n[:12]}})
                continue
            st['request_n_values_compared'] += len(sub.requests) + (1 if n0 is not None else 0)
            if n0 is not None and first is not None and first != n0:
                wit.append({'clause': 'initial-request-n-differs',
                            'detail': {'iid': iid, 'stream': sid, 'application': n0, 'wire': first}})
            if sent_n != sub.requests:
                wit.append({'clause': 'request-n-values-differ',
                            'detail': {'iid': iid, 'stream': sid, 'endpoint': ep, 'application_requests': sub.requests[:12],
                                       'wire_request_n': sent_n[:12],
                                       'trace': [x for x in trace_excerpt(world, 400, iid) if ('(%d' % sid) in x or 'app_request' in x][:50]}})
            # liveness restated: with enough credit every element has been sent by quiescence
            ledger = streams.get((producer_ep, sid))
            # an on_error that no ERROR frame explains is the connection being torn down at the end of the run
            # under a subscriber that was still waiting - exactly the stall this clause is about
            error_frame = any(e['kind'] == 'wire' and e['dir'] == 'recv' and e['ep'] == ep and e['f'].get('sid') == sid
                              and e['f']['type'] == 'ERROR' for e in world.events)
            terminated_early = sub.cancelled or (error_frame and any(x == 'on_error' for x in sub.log))
            if ledger is not None and not terminated_early and pcfg.get('terminal') != 'error':
                want = min(len(pcfg['elems']), ledger['credit'])
                real = sum(1 for x in sub.values if x[0] or x[1])
                want_app = min(len(pcfg['elems']), sub.granted)
                if real >= want and real < want_app:
                    wit.append({'clause': 'granted-credit-never-became-effective',
                                'detail': {'iid': iid, 'stream': sid, 'granting_endpoint': ep, 'producer': producer_ep,
                                           'credit_granted_by_application': sub.granted,
                                           'credit_the_producer_accounted': ledger['credit'],
                                           'elements_available': len(pcfg['elems']), 'elements_delivered': real,
                                           'trace': [x for x in trace_excerpt(world, 400, iid)][:60]}})
                if real < want:
                    wit.append({'clause': 'element-withheld-despite-credit',
                                'detail': {'iid': iid, 'stream': sid, 'producer': producer_ep, 'source': pcfg.get('source'),
                                           'credit_received': ledger['credit'], 'elements_available': len(pcfg['elems']),
                                           'elements_delivered': real,
                                           'trace': [x for x in trace_excerpt(world, 400, iid)][:60]}})
    nontrivial = any(s['instalments'] >= 2 and s['sent'] >= 2 for s in streams.values())
    ev = {'wire_frames': sum(1 for e in world.events if e['kind'] == 'wire'), 'streams_observed': len(streams)}
    for s in specs:
        for c in (s['resp'], s.get('up') or {}):
            if c.get('source'):
                ev['source_' + c['source']] = ev.get('source_' + c['source'], 0) + 1
    seen = set()
    ws = []
    for w in wit:
        k = (w['clause'], classify(w))
        if k not in seen:
            seen.add(k)
            w['detail']['config'] = desc['config']
            w['detail']['interactions'] = specs
            ws.append(w)
    return {'evals': 1, 'nt_keys': [short_hash(desc)] if nontrivial else [], 'sigs': [world.signature()],
            'deciding': st, 'counts': ev, 'witnesses': ws, 'sample': desc}


def _run_ends_complete(world, first_event, ep, sid):
    """Whether the fragment run starting at first_event ends with the complete flag."""
    for e in world.events[first_event['i'] + 1:]:
        if e['kind'] == 'wire' and e['dir'] == 'recv' and e['ep'] == ep and e['f'].get('sid') == sid \
                and e['f']['type'] == 'PAYLOAD' and not e['f'].get('follows'):
            return bool(e['f'].get('complete'))
    return False


def classify(w):
    return None
