"""C14 Lease: no request without a valid lease, never more than granted."""
import asyncio
import struct
from datetime import timedelta

from .. import assert_repo
from ..links import ANY_LINK

ID = 'C14'
LEVEL = 'exploration'
RULE = ('requester: a lease-honouring real client against a raw server that sends seeded LEASE sequences (counts 0, 1, 2, '
        '5, 2^31-1; ttl 0, 1 ms, 1.5 s, 10 s, max) at scripted virtual times, interleaved with requests of all four '
        'types (with/without fragmentation) made before, between and after leases and at expiry -1us/0/+1us, queue sizes '
        'unbounded / 1 / 3. A reference lease model is replayed over the observed order of LEASE receptions and API '
        'calls and must predict exactly which requests enter the send path, in which order and under which lease. '
        'responder: a real server with SingleLeasePublisher or a scripted multi-lease publisher against a raw client; '
        'LEASE frames must equal the published leases (count, ttl in ms). reconnect: a lease-honouring client with a '
        'transport provider (C17 harness: 1..3 connection endings of all causes) against real servers that publish one '
        'lease after 0..4 s; on every connection no request may leave before that connection\'s first LEASE and none '
        'beyond its count / ttl. non-trivial = a requester case with >= 2 leases '
        'and >= 1 request retained in the queue; distinct by case digest.')
ASSUMPTIONS = ['a request is admitted at the moment its frame enters the send path; the virtual link has no latency in '
               'these runs so reception time = send time of a LEASE',
               'a lease is valid while now < reception + ttl (strictly), a request made when the retention queue is full '
               'raises to the caller and is not counted']
DECIDING_REQUIRED = ('requests_admitted_checked', 'requests_retained', 'leases_received', 'lease_frames_compared',
                     'requests_at_expiry_boundary', 'connections_with_lease_checked')
BUDGET_S = {'quick': 90, 'thorough': 1500}
MAXN = 0x7FFFFFFF


def plan(tier, seed):
    return [('requester', 6000 if tier == 'quick' else 60000), ('responder', 1000 if tier == 'quick' else 10000),
            ('reconnect', 600 if tier == 'quick' else 6000)]


def _iid_of(f):
    from ..apps import MAGIC
    for part in (f.get('data') or b'', f.get('metadata') or b''):
        if part[:4] == MAGIC and len(part) >= 8:
            return struct.unpack('>I', part[4:8])[0]
    return None


async def _requester(rng, desc):
    from ..rawpeer import RawWorld
    from ..apps import RecSubscriber, make_payload, DIR_REQUEST, DIR_RESPONSE
    ckw = {'honor_lease': True, 'request_queue_size': desc['queue_size']}
    if desc.get('own_publisher'):
        # the client is a responder too and grants leases of its own to the peer: they must not count as leases
        # it has received
        ckw['lease_publisher'] = ScriptedLeasePublisher([tuple(x) for x in desc['own_publisher']])
    role = desc.get('role', 'c')
    if role == 'c':
        rw = RawWorld(rng, 'c', link_kind=desc['link'], frag=desc['frag'], client_kwargs=ckw)
        await rw.start()
    else:
        # the server as the lease-honouring requester: it may not send a request before the client's first LEASE either
        from ..rawpeer import setup_frame
        rw = RawWorld(rng, 's', link_kind=desc['link'], frag=desc['frag'], server_kwargs=ckw)
        await rw.start(send_setup=False)
        rw.peer.send(setup_frame(lease=bool(desc.get('own_publisher'))))
    world = rw.world
    loop = asyncio.get_event_loop()
    t0 = loop.time()
    await asyncio.sleep(0.01)
    for ev in desc['timeline']:
        now = loop.time() - t0
        if ev['t'] > now:
            await asyncio.sleep(ev['t'] - now)
        if ev['kind'] == 'lease':
            rw.peer.send({'type': 'LEASE', 'sid': 0, 'ttl_ms': ev['ttl_ms'], 'requests': ev['n'], 'metadata': None})
            for _ in range(3):
                await asyncio.sleep(0)
        else:
            iid = ev['iid']
            p = make_payload(iid, DIR_REQUEST, 0, ev['dl'], 0)
            world.log('call', iid=iid, model=ev['model'])
            try:
                if ev['model'] == 'rr':
                    rw.ep.request_response(p)
                elif ev['model'] == 'fnf':
                    rw.ep.fire_and_forget(p)
                else:
                    sub = RecSubscriber(world, iid, DIR_RESPONSE, 'sub%d' % iid, policy=('never',))
                    if ev['model'] == 'stream':
                        rw.ep.request_stream(p).initial_request_n(1).subscribe(sub)
                    else:
                        rw.ep.request_channel(p).initial_request_n(1).subscribe(sub)
                    if ev.get('post') == 'request':
                        sub._request(2)
                    elif ev.get('post') == 'cancel':
                        sub.do_cancel()
            except Exception as e:
                world.log('call_raised', iid=iid, err=type(e).__name__)
    await asyncio.sleep(desc['tail'])
    await rw.close()
    return world, t0


def _us(t):
    """The library reads the (virtual) clock through datetime, i.e. rounded to microseconds; the model must compare
    in the same unit or the expiry instant itself becomes a floating point coin toss."""
    return int(round(t * 1e6))


def _valid(lease, t):
    return _us(t) < _us(lease['t']) + int(round(lease['ttl'] * 1e6))


def reference_model(events, queue_size):
    """Replays the observed order of LEASE receptions and API calls; returns the expected admissions
    [(iid, lease index)] in order, the set of iids expected to be refused (queue full) and those retained."""
    lease = None
    nlease = -1
    queue = []
    admitted = []
    refused = []
    retained_ever = []
    for e in events:
        if e['kind'] == 'wire' and e['dir'] == 'recv' and e['f'].get('type') == 'LEASE':
            nlease += 1
            lease = {'t': e['t'], 'n': e['f']['requests'], 'ttl': e['f']['ttl_ms'] / 1000.0, 'used': 0, 'idx': nlease}
            while queue and _valid(lease, e['t']) and lease['used'] < lease['n']:
                lease['used'] += 1
                admitted.append((queue.pop(0), nlease))
        elif e['kind'] == 'call':
            t = e['t']
            if lease is not None and _valid(lease, t) and lease['used'] < lease['n']:
                lease['used'] += 1
                admitted.append((e['iid'], lease['idx']))
            elif queue_size and len(queue) >= queue_size:
                refused.append(e['iid'])
            else:
                queue.append(e['iid'])
                retained_ever.append(e['iid'])
    return admitted, refused, retained_ever, queue


def check_requester(world, desc):
    wit = []
    st = {'requests_admitted_checked': 0, 'requests_retained': 0, 'leases_received': 0, 'requests_at_expiry_boundary': 0}
    public = {k: v for k, v in desc.items() if not k.startswith('_')}

    def bad(clause, **kw):
        from ..pair import trace_excerpt
        wit.append({'clause': clause, 'detail': dict(kw, case=public, trace=trace_excerpt(world, 60))})

    expected, refused, retained, left = reference_model(world.events, desc['queue_size'])
    st['requests_retained'] = len(retained)
    # what actually entered the send path, with the lease in force at that moment
    lease = None
    nlease = -1
    actual = []
    for e in world.events:
        if e['kind'] == 'wire' and e['dir'] == 'recv' and e['f'].get('type') == 'LEASE':
            nlease += 1
            st['leases_received'] += 1
            lease = {'t': e['t'], 'n': e['f']['requests'], 'ttl': e['f']['ttl_ms'] / 1000.0, 'used': 0}
        elif e['kind'] == 'queue' and e['f'].get('type', '').startswith('REQUEST_') and e['f']['type'] != 'REQUEST_N':
            iid = _iid_of(e['f'])
            actual.append((iid, nlease))
            st['requests_admitted_checked'] += 1
            if lease is None:
                bad('request-before-first-lease', iid=iid)
                continue
            if not _valid(lease, e['t']):
                bad('request-after-lease-expired', iid=iid, lease_received_at=lease['t'], ttl=lease['ttl'], sent_at=e['t'])
            lease['used'] += 1
            if lease['used'] > lease['n']:
                bad('more-requests-than-granted', iid=iid, granted=lease['n'], used=lease['used'])
            if abs(e['t'] - (lease['t'] + lease['ttl'])) <= 2e-6:
                st['requests_at_expiry_boundary'] += 1
    ids = [i for i, _ in actual]
    if len(set(ids)) != len(ids):
        bad('request-sent-more-than-once', sent=ids)
    if actual != expected:
        exp_ids = [i for i, _ in expected]
        if sorted(ids) == sorted(exp_ids) and ids != exp_ids:
            bad('retained-requests-not-released-in-fifo-order', expected=exp_ids, got=ids)
        elif set(exp_ids) - set(ids):
            bad('retained-request-never-sent-despite-capacity', missing=sorted(set(exp_ids) - set(ids)), expected=exp_ids,
                got=ids)
        elif set(ids) - set(exp_ids):
            bad('request-sent-that-the-lease-model-withholds', extra=sorted(set(ids) - set(exp_ids)), expected=exp_ids,
                got=ids)
        else:
            bad('admission-under-different-lease', expected=expected, got=actual)
    raised = [e['iid'] for e in world.events if e['kind'] == 'call_raised']
    if sorted(raised) != sorted(refused):
        bad('queue-limit-not-as-configured', refused_by_model=refused, raised=raised)
    for e in world.events:
        if e['kind'] == 'call':
            for ev in desc['timeline']:
                if ev.get('iid') == e['iid'] and ev.get('boundary'):
                    st['requests_at_expiry_boundary'] += 1
    return wit, st


class ScriptedLeasePublisher:
    def __init__(self, leases):
        self.leases = leases
        self.subscriber = None

    def subscribe(self, subscriber):
        self.subscriber = subscriber
        asyncio.ensure_future(self._run())

    async def _run(self):
        from rsocket.lease import DefinedLease
        for wait, n, ttl_ms in self.leases:
            await asyncio.sleep(wait)
            self.subscriber.on_next(DefinedLease(maximum_request_count=n,
                                                 maximum_lease_time=timedelta(milliseconds=ttl_ms)))


async def _responder(rng, desc):
    from ..rawpeer import RawWorld, setup_frame
    from rsocket.lease import SingleLeasePublisher
    if desc['publisher'] == 'single':
        n, ttl = desc['leases'][0][1], desc['leases'][0][2]
        pub = SingleLeasePublisher(maximum_request_count=n, maximum_lease_time=timedelta(milliseconds=ttl),
                                   wait_between_leases=timedelta(seconds=desc['leases'][0][0]))
    else:
        pub = ScriptedLeasePublisher(desc['leases'])
    rw = RawWorld(rng, 's', link_kind=desc['link'], server_kwargs={'lease_publisher': pub})
    await rw.start(send_setup=False)
    rw.peer.send(setup_frame(lease=True))
    await asyncio.sleep(sum(l[0] for l in desc['leases']) + 2.0)
    got = [(f['requests'], f['ttl_ms']) for f in rw.peer.frames('LEASE')]
    errs = rw.peer.frames('ERROR', 0)
    await rw.close()
    return got, errs


TTL_MS = [0, 1, 1500, 10000, MAXN]
COUNTS = [0, 1, 2, 5, MAXN]


def gen_requester(rng):
    nleases = rng.choice([0, 1, 2, 3, 4])
    timeline = []
    t = 0.0
    lease_times = []
    for _ in range(nleases):
        t += rng.choice([0.0, 0.1, 0.5, 1.0, 2.0])
        ttl = rng.choice(TTL_MS + [500, 2000])
        timeline.append({'kind': 'lease', 't': round(t, 6), 'n': rng.choice(COUNTS), 'ttl_ms': ttl})
        lease_times.append((t, ttl / 1000.0))
    iid = 1
    nreq = rng.choice([1, 2, 4, 8, 12])
    horizon = t + 3.0
    for _ in range(nreq):
        x = rng.random()
        boundary = False
        if x < 0.3 and lease_times:
            lt, ttl = rng.choice(lease_times)
            rt = lt + ttl + rng.choice([-1e-6, 0.0, 1e-6])
            boundary = True
            if rt < 0 or rt > horizon + 20:
                rt = rng.random() * horizon
                boundary = False
        elif x < 0.5:
            rt = 0.0
        else:
            rt = rng.random() * horizon
        timeline.append({'kind': 'req', 't': round(rt, 6), 'iid': iid, 'model': rng.choice(['rr', 'fnf', 'stream', 'channel']),
                         'dl': rng.choice([8, 20, 200, 700]), 'boundary': boundary})
        iid += 1
    timeline.sort(key=lambda e: (e['t'], 0 if e['kind'] == 'lease' else 1, e.get('iid', 0)))
    own = None
    if rng.random() < 0.25:
        own = [[rng.choice([0.0, 0.0, 0.3]), rng.choice([1, 5, 100]), rng.choice([1000, 60000])]
               for _ in range(rng.choice([1, 2]))]
    return {'link': rng.choice(ANY_LINK), 'frag': rng.choice([None, None, 64, 100]),
            'queue_size': rng.choice([0, 0, 1, 3]), 'timeline': timeline, 'tail': 2.0, 'own_publisher': own,
            'role': rng.choice('ccs')}


def run_reconnect(idx, rng):
    """A lease-honouring client that reconnects (C17's harness): on every connection no request may leave before
    that connection's first LEASE arrived, and no more than it grants."""
    from .. import vloop
    from ..runner import short_hash
    from ..minicodec import brief
    from . import c17
    desc = c17.gen_case(rng)
    desc['lease'] = [[rng.choice([0.0, 0.3, 1.0, 2.0, 4.0]) for _ in range(4)], rng.choice([1, 2, 5, 100]),
                     rng.choice([500, 5000, 60000])]
    world, rounds, conns = vloop.run(c17._run(rng, desc))
    wit = []
    st = {'requests_admitted_checked': 0, 'requests_retained': 0, 'leases_received': 0, 'requests_at_expiry_boundary': 0,
          'lease_frames_compared': 0, 'connections_with_lease_checked': 0}
    for c in conns:
        n = c['index']
        lease_at = None
        sent = 0
        for e in world.events:
            if e['kind'] != 'wire' or e.get('conn') != n or e['ep'] != 'c':
                continue
            f = e['f']
            if e['dir'] == 'recv' and f['type'] == 'LEASE':
                st['leases_received'] += 1
                if lease_at is None:
                    lease_at = e['t']
            elif e['dir'] == 'send' and f['type'] in ('REQUEST_RESPONSE', 'REQUEST_FNF', 'REQUEST_STREAM', 'REQUEST_CHANNEL'):
                sent += 1
                st['requests_admitted_checked'] += 1
                if lease_at is None:
                    wit.append({'clause': 'request-before-first-lease-of-connection',
                                'detail': {'connection': n, 'frame': brief(f), 'case': desc}})
                    break
                if sent > desc['lease'][1] or e['t'] - lease_at > desc['lease'][2] / 1000.0 + 1e-6:  # noqa
                    wit.append({'clause': 'request-outside-lease',
                                'detail': {'connection': n, 'frame': brief(f), 'requests_sent': sent,
                                           'since_lease_s': e['t'] - lease_at, 'case': desc}})
                    break
        st['connections_with_lease_checked'] += 1
    # a request made on the new connection is sent once that connection's lease allows it, and answered
    for rnd, r in enumerate(rounds):
        pr = r['probe']
        if r['new'] is None or pr is None:
            continue
        n = r['new']['index']
        leased = [e for e in world.events if e['kind'] == 'wire' and e.get('conn') == n and e['ep'] == 'c'
                  and e['dir'] == 'recv' and e['f']['type'] == 'LEASE']
        if leased and desc['lease'][1] >= 5 and desc['lease'][2] >= 5000 and (pr[0] != 'result' or pr[1] is not True):
            # (a one- or two-request lease may legitimately have been used up by the requests issued while
            # reconnecting, a 0.5 s lease may have expired before the probe)
            wit.append({'clause': 'request-under-valid-lease-not-served',
                        'detail': {'connection': n, 'probe': list(pr), 'round': rnd, 'case': desc,
                                   'trace': [x for x in __import__('rv.pair', fromlist=['x']).trace_excerpt(world, 300)
                                             if ' c ' in x][-40:]}})
            break
    return {'evals': 1, 'nt_keys': [short_hash(desc)] if len(conns) >= 2 else [], 'deciding': st, 'witnesses': wit[:2],
            'counts': {'reconnect_lease_runs': 1, 'connections': len(conns)}, 'sample': desc}


def run_case(gen, idx, rng, tier):
    assert_repo()
    from .. import vloop
    from ..runner import short_hash
    if gen == 'reconnect':
        return run_reconnect(idx, rng)
    if gen == 'requester':
        desc = gen_requester(rng)
        world, t0 = vloop.run(_requester(rng, desc))
        wit, st = check_requester(world, desc)
        st['lease_frames_compared'] = 0
        nl = sum(1 for e in desc['timeline'] if e['kind'] == 'lease')
        nt = nl >= 2 and st['requests_retained'] >= 1
        return {'evals': 1, 'nt_keys': [short_hash(desc)] if nt else [], 'deciding': st, 'witnesses': wit[:3],
                'sigs': [world.signature()], 'sample': desc}
    kind = rng.choice(['single', 'scripted', 'scripted'])
    n = 1 if kind == 'single' else rng.choice([1, 2, 4])
    leases = [(rng.choice([0.0, 0.0, 0.1, 1.0]), rng.choice(COUNTS + [7, 100]),
               rng.choice([1, 500, 999, 1000, 1001, 1500, 2750, 4007, 10000, 120250, MAXN, rng.randrange(1, 10 ** 7),
                           rng.randrange(1, 10 ** 4)])) for _ in range(n)]
    desc = {'publisher': kind, 'leases': leases, 'link': rng.choice(ANY_LINK)}
    got, errs = vloop.run(_responder(rng, desc))
    want = [(c, ttl) for _, c, ttl in leases]
    wit = []
    if got != want or errs:
        wit.append({'clause': 'announced-leases-differ-from-published',
                    'detail': {'case': desc, 'published(count,ttl_ms)': want, 'announced': got,
                               'errors_on_stream_0': len(errs)}})
    st = {'requests_admitted_checked': 0, 'requests_retained': 0, 'leases_received': 0, 'requests_at_expiry_boundary': 0,
          'lease_frames_compared': len(want)}
    return {'evals': 1, 'nt_keys': [short_hash(desc)] if len(leases) >= 1 else [], 'deciding': st, 'witnesses': wit,
            'sample': desc}


def classify(w):
    return None
