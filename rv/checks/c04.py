"""C04 Decoded frames are independent of how the byte stream is chunked."""
import asyncio

from .. import assert_repo, gen_frames, minicodec, vloop

ID = 'C04'
LEVEL = 'exploration'
RULE = ('seeded sequences of 1..8 records (valid frames of all 14 types, truncated frames, junk, unknown types, '
        'zero-length and <6-byte records, ignore-flagged junk, bad error codes, metadata-length overruns); each '
        'sequence is decoded under many partitions of its byte stream (whole, single bytes, fixed sizes, every '
        '2-partition when <= 400 B, every 3-partition when <= 60 B, cuts inside every length prefix, random '
        'k-partitions) with FrameParser.receive_data and through TransportTCP.next_frame_generator on a StreamReader, '
        'and in message mode one record per message. evaluations = (sequence, partition) pairs; non-trivial = '
        'a partition with >= 2 chunks of a sequence with >= 2 records, distinct by (sequence digest, partition).')
ASSUMPTIONS = ['the expected output of a record is what rsocket.frame.parse_or_ignore returns for that record alone',
               'FrameParser._buffer is read (length only) to confirm nothing is left over; a missing attribute makes '
               'that clause inconclusive']
DECIDING_REQUIRED = ('partitions_decoded', 'splits_inside_length_prefix', 'malformed_records_fed', 'tcp_reader_runs',
                     'message_mode_messages')
BUDGET_S = {'quick': 90, 'thorough': 1500}


class StepBound(Exception):
    pass


def drain(agen, bound):
    """Synchronously exhaust an async generator that never really awaits."""
    out = []
    while True:
        try:
            agen.__anext__().send(None)
        except StopIteration as e:
            out.append(e.value)
            if len(out) > bound:
                raise StepBound()
        except StopAsyncIteration:
            return out
        else:
            raise RuntimeError('receive_data suspended')


UNDECODABLE_BY_CONSTRUCTION = ('short', 'zero-length', 'unknown-type', 'ignore-junk', 'bad-error-code')


def expected_of(bodies, kinds=None):
    """Reference: each record alone through parse_or_ignore -> serialized frame or None.  Records whose generator
    makes them undecodable by construction (shorter than a header, unknown type, mandatory fields missing, undefined
    error code) must yield no frame whatever the decoder itself thinks of them."""
    from rsocket.frame import parse_or_ignore
    out = []
    for i, b in enumerate(bodies):
        if kinds is not None and kinds[i] in UNDECODABLE_BY_CONSTRUCTION:
            out.append('invalid')
            continue
        try:
            f = parse_or_ignore(b)
            out.append(None if f is None else f.serialize())
        except Exception:
            out.append('invalid')
    return out


def decode_stream(chunks, header_length=3):
    from rsocket.frame_parser import FrameParser
    from rsocket.frame import InvalidFrame
    p = FrameParser()
    frames = []
    markers = 0
    for c in chunks:
        got = drain(p.receive_data(c, header_length), len(c) // 3 + 2 if header_length else 2)
        for f in got:
            if isinstance(f, InvalidFrame):
                markers += 1
            else:
                frames.append(f.serialize())
    try:
        left = len(p._buffer)
    except AttributeError:
        left = None
    return frames, markers, left


def partitions(stream, boundaries, rng, tier):
    """Yields (label, [chunk, ...])."""
    n = len(stream)
    yield 'whole', [stream]
    if n <= 1:
        return
    yield 'bytes', [stream[i:i + 1] for i in range(n)]
    for c in (2, 3, 5, 7, 64):
        if c < n:
            yield 'fixed-%d' % c, [stream[i:i + c] for i in range(0, n, c)]
    if n <= 400:
        for i in range(1, n):
            yield '2p-%d' % i, [stream[:i], stream[i:]]
    else:
        for b in boundaries:
            for d in (-1, 0, 1, 2, 3, 4):
                i = b + d
                if 0 < i < n:
                    yield '2p-%d' % i, [stream[:i], stream[i:]]
    if n <= 60:
        for i in range(1, n):
            for j in range(i + 1, n):
                yield '3p-%d-%d' % (i, j), [stream[:i], stream[i:j], stream[j:]]
    # cuts inside every length prefix simultaneously
    cuts = sorted({b + d for b in boundaries for d in (1, 2) if 0 < b + d < n})
    if cuts:
        yield 'all-prefix-cuts', _cut(stream, cuts)
    for k in range(6 if tier == 'quick' else 20):
        m = rng.randrange(1, min(n, 12))
        cuts = sorted(rng.sample(range(1, n), m))
        yield 'rnd-%s' % '-'.join(map(str, cuts)), _cut(stream, cuts)


def _cut(stream, cuts):
    out = []
    prev = 0
    for c in cuts:
        out.append(stream[prev:c])
        prev = c
    out.append(stream[prev:])
    return out


def _inside_prefix(label_chunks, boundaries):
    pos = 0
    hits = 0
    for c in label_chunks[:-1]:
        pos += len(c)
        for b in boundaries:
            if b < pos < b + 3:
                hits += 1
    return hits


async def _tcp_decode(stream, feed_chunks, read_buffer_size, eof='late'):
    from rsocket.transports.tcp import TransportTCP
    from rsocket.frame import InvalidFrame

    class W:
        def close(self):
            pass

        def write(self, b):
            pass

    reader = asyncio.StreamReader()
    tr = TransportTCP(reader, W(), read_buffer_size=read_buffer_size)
    frames = []
    markers = 0

    async def feeder():
        # eof: 'late' = after the reader had a turn on the last chunk; 'with-last' = together with the last chunk;
        # 'buffered' = everything, EOF included, is in the reader's buffer before the first read (a peer that writes
        # and closes at once)
        for i, c in enumerate(feed_chunks):
            reader.feed_data(c)
            if eof == 'buffered' or (eof == 'with-last' and i == len(feed_chunks) - 1):
                continue
            await asyncio.sleep(0)
        reader.feed_eof()

    if eof == 'buffered':
        await feeder()
        t = asyncio.ensure_future(asyncio.sleep(0))
    else:
        t = asyncio.ensure_future(feeder())
    while True:
        gen = await tr.next_frame_generator()
        if gen is None:
            break
        n = 0
        async for f in gen:
            n += 1
            if n > read_buffer_size // 3 + 2:
                raise StepBound()
            if isinstance(f, InvalidFrame):
                markers += 1
            else:
                frames.append(f.serialize())
    await t
    return frames, markers


async def _message_queue(frames_bytes, waiting):
    from rsocket.transports.abstract_messaging import AbstractMessagingTransport
    from rsocket.frame_parser import FrameParser
    from rsocket.exceptions import RSocketTransportError

    class T(AbstractMessagingTransport):
        async def send_frame(self, frame):
            pass

        async def close(self):
            pass

    t = T()
    parser = FrameParser()
    frames = []
    for b in frames_bytes:
        async for f in parser.receive_data(b, 0):
            frames.append(f)

    async def feeder():
        for f in frames:
            t._incoming_frame_queue.put_nowait(f)
            if waiting == 'one-by-one':
                await asyncio.sleep(0)
        t._incoming_frame_queue.put_nowait(RSocketTransportError())

    if waiting == 'all-queued-first':
        await feeder()
    else:
        asyncio.ensure_future(feeder())
    got = []
    failure = False
    for _ in range(len(frames) + 2):
        try:
            gen = await asyncio.wait_for(t.next_frame_generator(), 5.0)
        except RSocketTransportError:
            failure = True
            break
        async for f in gen:
            got.append(f.serialize())
    return got, failure


GLUE_ENDS = (('ws', 'c'), ('ws', 's'), ('aiohttp', 'c'), ('aiohttp', 's'), ('quart', 'c'), ('quart', 's'),
             ('channels', 'c'), ('channels', 's'))


async def _glue_decode(kind, side, bodies):
    """The messages go through the receive loop of one of the repository's real websocket transports (scripted
    socket underneath, rv/gluelinks.py) and are read back the way the endpoint's receiver does."""
    import random
    from .. import links
    from rsocket.frame import InvalidFrame
    link = links.make_link(kind, random.Random(0))
    t = link.transports[side]
    if side == 'c':
        await t.connect()
    for b in bodies:
        link.sockets[side].inbox.put_nowait(bytes(b))
    got = []
    markers = 0
    for _ in range(len(bodies) + 2):
        try:
            gen = await asyncio.wait_for(t.next_frame_generator(), 1.0)
        except asyncio.TimeoutError:
            break
        async for f in gen:
            if isinstance(f, InvalidFrame):
                markers += 1
            else:
                got.append(f.serialize())
    ended = []
    for name, task in link.tasks.items():
        if name in ('glue-' + side, 'handler-' + side) and task.done():
            ended.append((name, 'cancelled' if task.cancelled() else repr(task.exception())))
    mh = getattr(t, '_message_handler', None)
    if mh is not None and kind != 'channels' and mh.done():
        ended.append(('_message_handler', 'cancelled' if mh.cancelled() else repr(mh.exception())))
    left = link.sockets[side].inbox.qsize()
    link.stop()
    return got, markers, ended, left


def plan(tier, seed):
    return [('byte-mode', 800 if tier == 'quick' else 9000),
            ('tcp-reader', 400 if tier == 'quick' else 3000),
            ('message-mode', 200 if tier == 'quick' else 1200)]


def _sequence(rng, tier):
    nrec = rng.randrange(1, 9)
    shape = rng.random()
    if shape < 0.35:
        kinds = ['valid']
        mx = 40
    elif shape < 0.7:
        kinds = gen_frames.RECORD_KINDS
        mx = 40
    else:
        kinds = gen_frames.RECORD_KINDS
        mx = 400
    recs = [gen_frames.random_record(rng, kinds, mx) for _ in range(nrec)]
    return recs


def _compare(expected, frames, markers, left, ctx, label, witnesses):
    want = [e for e in expected if e not in (None, 'invalid')]
    ninvalid = sum(1 for e in expected if e == 'invalid')

    def bad(clause, **kw):
        d = dict(ctx)
        d['partition'] = label
        d.update(kw)
        witnesses.append({'clause': clause, 'detail': d})

    if frames != want:
        if len(frames) < len(want) and frames == want[:len(frames)]:
            bad('frames-lost', expected=len(want), got=len(frames))
        elif len(frames) > len(want):
            bad('frames-extra-or-duplicated', expected=len(want), got=len(frames))
        else:
            i = next((i for i, (a, b) in enumerate(zip(frames, want)) if a != b), min(len(frames), len(want)))
            bad('frames-differ', first_difference_at_frame=i, expected=len(want), got=len(frames))
    if markers > ninvalid:
        bad('more-invalid-markers-than-undecodable-records', markers=markers, undecodable=ninvalid)
    if left not in (None, 0):
        bad('bytes-left-in-buffer', left=left)


def run_case(gen, idx, rng, tier):
    assert_repo()
    witnesses = []
    st = {'partitions_decoded': 0, 'splits_inside_length_prefix': 0, 'malformed_records_fed': 0,
          'tcp_reader_runs': 0, 'message_mode_messages': 0}
    nt_keys = []
    nseq = 6
    evals = 0
    sample = None
    for s in range(nseq):
        recs = _sequence(rng, tier)
        bodies = [b for _, b in recs]
        kinds = [k for k, _ in recs]
        stream = gen_frames.to_stream(bodies)
        expected = expected_of(bodies, kinds)
        boundaries = []
        off = 0
        for b in bodies:
            boundaries.append(off)
            off += 3 + len(b)
        seq_digest = hash(stream) & 0xFFFFFFFF
        ctx = {'records': kinds, 'record_lengths': [len(b) for b in bodies], 'stream_len': len(stream),
               'stream_hex': stream.hex() if len(stream) <= 200 else stream[:100].hex() + '..'}
        st['malformed_records_fed'] += sum(1 for k in kinds if k != 'valid')
        if sample is None:
            sample = {'records': kinds, 'record_lengths': ctx['record_lengths'], 'stream_len': len(stream),
                      'expected_frames': sum(1 for e in expected if e not in (None, 'invalid'))}
        if gen == 'byte-mode':
            seen = set()
            for label, chunks in partitions(stream, boundaries, rng, tier):
                evals += 1
                st['partitions_decoded'] += 1
                st['splits_inside_length_prefix'] += _inside_prefix(chunks, boundaries)
                try:
                    frames, markers, left = decode_stream(chunks)
                except StepBound:
                    witnesses.append({'clause': 'decoder-exceeds-step-bound', 'detail': dict(ctx, partition=label)})
                    break
                except Exception as e:
                    witnesses.append({'clause': 'decoder-raises', 'detail': dict(ctx, partition=label, error=repr(e))})
                    break
                before = len(witnesses)
                _compare(expected, frames, markers, left, ctx, label, witnesses)
                if len(witnesses) > before:
                    cl = witnesses[-1]['clause']
                    if cl in seen:
                        del witnesses[before:]
                    else:
                        del witnesses[before + 1:]
                        seen.add(cl)
                if len(chunks) >= 2 and len(bodies) >= 2:
                    nt_keys.append('%08x|%s' % (seq_digest, label))
        elif gen == 'tcp-reader':
            for rbs in (1, 2, 3, 5, 64, 65536):
                feeds = []
                for _ in range(2):
                    m = rng.randrange(0, min(len(stream), 10)) if len(stream) > 1 else 0
                    cuts = sorted(rng.sample(range(1, len(stream)), m)) if m else []
                    feeds.append(_cut(stream, cuts))
                feeds.append([stream[i:i + 1] for i in range(len(stream))] if len(stream) < 200 else [stream])
                for fi, chunks in enumerate(feeds):
                    evals += 1
                    st['tcp_reader_runs'] += 1
                    eof = ('late', 'with-last', 'buffered')[(fi + rbs) % 3]
                    label = 'tcp rbs=%d feeds=%d eof=%s' % (rbs, len(chunks), eof)
                    try:
                        frames, markers = vloop.run(_tcp_decode(stream, chunks, rbs, eof))
                    except StepBound:
                        witnesses.append({'clause': 'decoder-exceeds-step-bound', 'detail': dict(ctx, partition=label)})
                        continue
                    except Exception as e:
                        witnesses.append({'clause': 'transport-generator-raises',
                                          'detail': dict(ctx, partition=label, error=repr(e))})
                        continue
                    _compare(expected, frames, markers, None, ctx, label, witnesses)
                    if len(bodies) >= 2 and (rbs < len(stream) or len(chunks) >= 2):
                        nt_keys.append('%08x|%s|%d' % (seq_digest, label, hash(tuple(map(len, chunks))) & 0xFFFF))
        else:  # message-mode: one record per message, one parser for the connection
            from rsocket.frame_parser import FrameParser
            from rsocket.frame import InvalidFrame
            # the message transport's own queue: every frame queued ahead of a transport failure still comes out,
            # in order, before the failure does, however many were waiting when the reader looked
            good = [e for e in expected if e not in (None, 'invalid')]
            if good:
                for waiting in ('all-queued-first', 'one-by-one'):
                    try:
                        got, failure = vloop.run(_message_queue(good, waiting))
                    except Exception as e:
                        witnesses.append({'clause': 'transport-generator-raises',
                                          'detail': dict(ctx, partition='message queue ' + waiting, error=repr(e))})
                        continue
                    st['message_queue_runs'] = st.get('message_queue_runs', 0) + 1
                    if got != good or not failure:
                        witnesses.append({'clause': 'frames-queued-before-a-transport-failure-lost',
                                          'detail': dict(ctx, partition='message queue ' + waiting, expected=len(good),
                                                         got=len(got), failure_raised=failure)})
            # the same messages through the receive loop of a real websocket transport of the repository
            gk, gside = GLUE_ENDS[(idx * nseq + s) % len(GLUE_ENDS)]
            if gk == 'channels':
                # django-channels never delivers an empty binary message to the consumer's receive(bytes_data=...)
                # as bytes (falsy payloads are dropped by the transport itself): same expectation, nothing comes out
                pass
            try:
                got, markers, ended, left = vloop.run(_glue_decode(gk, gside, bodies))
                st['glue_transport_runs'] = st.get('glue_transport_runs', 0) + 1
                st['glue_transport_messages'] = st.get('glue_transport_messages', 0) + len(bodies)
                good_all = [e for e in expected if e not in (None, 'invalid')]
                gctx = dict(ctx, partition='transport %s/%s' % (gk, gside))
                if ended:
                    witnesses.append({'clause': 'transport-receive-loop-ended', 'detail': dict(gctx, loops=ended)})
                elif got != good_all or left:
                    witnesses.append({'clause': 'message-does-not-yield-its-frame',
                                      'detail': dict(gctx, expected_frames=len(good_all), got=len(got),
                                                     unread_messages=left, markers=markers)})
            except Exception as e:
                witnesses.append({'clause': 'transport-generator-raises',
                                  'detail': dict(ctx, partition='transport %s/%s' % (gk, gside), error=repr(e))})
            p = FrameParser()
            for i, (kind, body) in enumerate(recs):
                evals += 1
                st['message_mode_messages'] += 1
                try:
                    got = drain(p.receive_data(body, 0), 2)
                except StepBound:
                    witnesses.append({'clause': 'decoder-exceeds-step-bound',
                                      'detail': {'mode': 'message', 'message_kind': kind, 'message_len': len(body),
                                                 'records': kinds}})
                    break
                except Exception as e:
                    witnesses.append({'clause': 'decoder-raises',
                                      'detail': {'mode': 'message', 'message_kind': kind, 'message_len': len(body),
                                                 'error': repr(e)}})
                    break
                frames = [f.serialize() for f in got if not isinstance(f, InvalidFrame)]
                exp = expected[i]
                want = [] if exp in (None, 'invalid') else [exp]
                if frames != want:
                    witnesses.append({'clause': 'message-does-not-yield-its-frame',
                                      'detail': {'message_kind': kind, 'message_len': len(body), 'index': i,
                                                 'records': kinds, 'expected_frames': len(want), 'got': len(frames)}})
                if len(bodies) >= 2:
                    nt_keys.append('%08x|msg|%d' % (seq_digest, i))
    # one witness per clause
    seen = set()
    ws = []
    for w in witnesses:
        k = (w['clause'], classify(w))
        if k not in seen:
            seen.add(k)
            ws.append(w)
    return {'evals': max(1, evals), 'nt_keys': nt_keys, 'deciding': st, 'witnesses': ws,
            'counts': {'sequences': nseq}, 'sample': sample}


def classify(w):
    return None
