"""C12 Hostile input and failing application code are contained."""
import asyncio

from .. import assert_repo

ID = 'C12'
LEVEL = 'exploration'
RULE = ('parser-fuzz: seeded byte strings (random bytes, empty and short messages, truncated frames, unknown types, giant '
        'length prefixes, valid frames with flipped bytes) fed to FrameParser.receive_data in both framing modes under a '
        'logical step bound. hostile-frames: a real server / client with a probe stream open and probe requests issued '
        'before, during and after 1..5 hostile stimuli drawn from a catalogue (frames for unknown and finished streams, '
        'wrong-role frames, duplicate SETUP, RESUME, LEASE, REQUEST_N 0, mismatched fragment types, unfinished fragment '
        'runs, stream id reuse, junk and truncated records, connection frames on streams and vice versa). failing-app: '
        'E-mix runs in which one interaction\'s application code raises (handler before/after its first await, returned '
        'future failing, publisher raising in subscribe/request/cancel, generator raising at element k, subscriber '
        'callbacks raising) next to bystanders; adapters: the same for the routing handler and both Rx handler adapters. '
        'non-trivial = a run with >= 1 stimulus and all probes evaluated; distinct by case digest.')
ASSUMPTIONS = ['hostile stimuli never use the probe stream ids (a peer that cancels the probe itself is not "another stream")',
               'allowed reactions: nothing, or ERROR on the offending stream (stream 0 for connection-level stimuli), or '
               'the KEEPALIVE echo owed to a respond-flagged KEEPALIVE']
DECIDING_REQUIRED = ('parser_inputs', 'hostile_stimuli_sent', 'probes_answered', 'failing_entry_points_exercised',
                     'adapter_cases')
BUDGET_S = {'quick': 100, 'thorough': 1800}

PROBE_STREAM = {'s': 201, 'c': 202}
PROBE_IDS = {'s': (203, 205, 207), 'c': (204, 206, 208)}


def plan(tier, seed):
    return [('parser-fuzz', 250 if tier == 'quick' else 12000),
            ('hostile-frames', 4000 if tier == 'quick' else 40000),
            ('failing-app', 3000 if tier == 'quick' else 30000),
            ('adapters', len(_adapter_cases()))]


# ---------------------------------------------------------------------------
# (a) parser fuzz


def _fuzz_inputs(rng, n):
    from .. import gen_frames, minicodec
    out = []
    for _ in range(n):
        k = rng.randrange(8)
        if k == 0:
            out.append(rng.randbytes(rng.randrange(0, 64)))
        elif k == 1:
            out.append(b'')
        elif k == 2:
            out.append(rng.randbytes(rng.randrange(1, 6)))
        elif k == 3:
            body = minicodec.encode(gen_frames.random_frame(rng, 60))
            out.append(body[:rng.randrange(0, len(body) + 1)])
        elif k == 4:
            body = bytearray(minicodec.encode(gen_frames.random_frame(rng, 60)))
            for _ in range(rng.randrange(1, 4)):
                body[rng.randrange(len(body))] = rng.randrange(256)
            out.append(bytes(body))
        elif k == 5:
            out.append(gen_frames.random_record(rng, ['unknown-type', 'bad-error-code', 'md-length-overrun'])[1])
        elif k == 6:
            out.append(bytes([0xFF, 0xFF, 0xFF]) + rng.randbytes(rng.randrange(0, 40)))
        else:
            out.append(gen_frames.to_stream([gen_frames.random_record(rng)[1] for _ in range(rng.randrange(1, 5))]))
    return out


def run_parser_fuzz(rng):
    from rsocket.frame_parser import FrameParser
    from .c04 import drain, StepBound
    wit = []
    n = 0
    inputs = _fuzz_inputs(rng, 400)
    p3 = FrameParser()
    for data in inputs:
        for mode, parser in ((0, FrameParser()), (3, p3)):
            n += 1
            try:
                drain(parser.receive_data(data, mode), len(data) // 3 + 2 if mode else 2)
            except StepBound:
                wit.append({'clause': 'decoder-exceeds-step-bound',
                            'detail': {'mode': 'message' if mode == 0 else 'bytes', 'input_len': len(data),
                                       'input_hex': data[:40].hex()}})
                if mode:
                    p3 = FrameParser()
            except Exception as e:
                wit.append({'clause': 'exception-escapes-decoder',
                            'detail': {'mode': 'message' if mode == 0 else 'bytes', 'input_len': len(data),
                                       'input_hex': data[:40].hex(), 'error': repr(e)}})
                if mode:
                    p3 = FrameParser()
    return n, wit


# ---------------------------------------------------------------------------
# (b) hostile frames with probes


GLUE_LINKS = ('ws', 'aiohttp', 'quart', 'channels')


def catalogue(rng, real, link='bytes'):
    """(name, [('frame', dict) | ('raw', bytes)], target stream ids)."""
    from ..rawpeer import setup_frame
    par = 1 if real == 's' else 0           # parity of ids the raw peer may open
    fin, open_rr, open_st = (1, 3, 5) if real == 's' else (2, 4, 6)
    unk = rng.choice([9, 11, 40, 41, 0x7FFFFF01])
    own = rng.choice([10, 12]) if real == 's' else rng.choice([9, 13])     # ids the real endpoint would open
    J = rng.randbytes
    c = []
    for t in ('PAYLOAD', 'REQUEST_N', 'CANCEL', 'ERROR'):
        for sid in (unk, fin, own):
            f = {'type': t, 'sid': sid, 'data': J(rng.randrange(0, 20)), 'metadata': None, 'n': rng.choice([0, 1, 5]),
                 'code': rng.choice([0x201, 0x202, 0x203]), 'next': True, 'complete': rng.random() < 0.5}
            c.append(('%s-for-%s-stream' % (t, 'unknown' if sid == unk else ('finished' if sid == fin else 'never-opened-own-parity')),
                      [('frame', f)], [sid]))
    c.append(('request-n-to-request-response', [('frame', {'type': 'REQUEST_N', 'sid': open_rr, 'n': 3})], [open_rr]))
    c.append(('payload-to-request-response-responder', [('frame', {'type': 'PAYLOAD', 'sid': open_rr, 'next': True,
                                                                  'data': b'x', 'metadata': None})], [open_rr]))
    c.append(('request-n-zero', [('frame', {'type': 'REQUEST_N', 'sid': open_st, 'n': 0})], [open_st]))
    c.append(('payload-to-stream-responder', [('frame', {'type': 'PAYLOAD', 'sid': open_st, 'next': True, 'data': b'y',
                                                        'metadata': None})], [open_st]))
    c.append(('duplicate-setup', [('frame', setup_frame())], [0]))
    c.append(('setup-on-stream', [('frame', dict(setup_frame(), sid=unk))], [unk]))
    c.append(('resume', [('frame', {'type': 'RESUME', 'sid': 0, 'token': b't', 'last_server_position': 0,
                                    'first_client_position': 0})], [0]))
    c.append(('resume-ok', [('frame', {'type': 'RESUME_OK', 'sid': 0, 'position': 5})], [0]))
    c.append(('lease', [('frame', {'type': 'LEASE', 'sid': 0, 'ttl_ms': 1000, 'requests': 0, 'metadata': None})], [0]))
    c.append(('lease-on-stream', [('frame', {'type': 'LEASE', 'sid': unk, 'ttl_ms': 1, 'requests': 1, 'metadata': None})], [unk]))
    c.append(('keepalive-on-stream', [('frame', {'type': 'KEEPALIVE', 'sid': unk, 'respond': False, 'data': b''})], [unk]))
    c.append(('keepalive-respond', [('frame', {'type': 'KEEPALIVE', 'sid': 0, 'respond': True, 'data': J(5)})], [0]))
    c.append(('metadata-push-on-stream', [('frame', {'type': 'METADATA_PUSH', 'sid': unk, 'metadata': b'mm'})], [unk]))
    c.append(('error-on-stream-0', [('frame', {'type': 'ERROR', 'sid': 0, 'code': 0x201, 'data': b'peer says no'})], [0]))
    c.append(('request-on-stream-0', [('frame', {'type': 'REQUEST_RESPONSE', 'sid': 0, 'data': b'RVrv\x00\x00\x03\xe7',
                                                 'metadata': None})], [0]))
    new = unk | 1 if par else (unk & ~1) or 40
    new = new if (new & 1) == par else new + 1
    c.append(('fragment-type-mismatch', [('frame', {'type': 'REQUEST_RESPONSE', 'sid': new, 'follows': True, 'data': b'aa',
                                                    'metadata': None}),
                                         ('frame', {'type': 'REQUEST_STREAM', 'sid': new, 'n': 1, 'data': b'bb',
                                                    'metadata': None})], [new]))
    c.append(('fragment-run-never-finished', [('frame', {'type': 'REQUEST_STREAM', 'sid': new + 2, 'n': 1, 'follows': True,
                                                         'data': b'part', 'metadata': None})], [new + 2]))
    c.append(('payload-fragments-for-unknown-stream', [('frame', {'type': 'PAYLOAD', 'sid': unk, 'follows': True, 'next': True,
                                                                  'data': b'p1', 'metadata': None}),
                                                       ('frame', {'type': 'PAYLOAD', 'sid': unk, 'next': True, 'data': b'p2',
                                                                  'metadata': None})], [unk]))
    c.append(('stream-id-reuse', [('frame', {'type': 'REQUEST_RESPONSE', 'sid': open_rr, 'data': b'RVrv\x00\x00\x03\xe6',
                                             'metadata': None})], [open_rr]))
    c.append(('unidentifiable-request', [('frame', {'type': rng.choice(['REQUEST_RESPONSE', 'REQUEST_STREAM', 'REQUEST_CHANNEL',
                                                                        'REQUEST_FNF']), 'sid': new + 4, 'n': 1,
                                                    'data': J(rng.randrange(0, 30)), 'metadata': None})], [new + 4]))
    c.append(('request-n-huge-initial-n-zero', [('frame', {'type': 'REQUEST_STREAM', 'sid': new + 6, 'n': 0, 'data': b'zz',
                                                           'metadata': None})], [new + 6]))
    sidb = (unk).to_bytes(4, 'big')
    c.append(('junk-record', [('raw', sidb + J(rng.randrange(2, 40)))], [unk]))
    c.append(('short-record', [('raw', J(rng.randrange(0, 6)))], []))
    c.append(('unknown-frame-type', [('raw', sidb + bytes([rng.choice([0, 15, 40, 62]) << 2, 0]) + J(5))], [unk]))
    c.append(('truncated-setup', [('raw', b'\x00\x00\x00\x00\x04\x00\x00\x01')], [0]))
    c.append(('truncated-request-stream', [('raw', sidb + bytes([6 << 2, 0, 0]))], [unk]))
    c.append(('error-frame-bad-code', [('raw', sidb + bytes([11 << 2, 0, 0, 0, 0, 9]))], [unk]))
    c.append(('ignore-flag-unknown-type', [('raw', sidb + bytes([(40 << 2) | 2, 0]) + J(3))], [unk]))
    # more frames at once than any reasonable bound on an internal queue: a burst that is read from the socket before
    # the receiver gets to run must not overflow anything
    flood = rng.choice([300, 1100, 2500])
    c.append(('flood-of-frames-for-unknown-stream',
              [('frame', {'type': rng.choice(['CANCEL', 'REQUEST_N']), 'sid': unk, 'n': 1})] * flood, [unk]))
    if link in GLUE_LINKS:
        # websocket messages that are not binary ones: whatever the websocket library hands to the transport glue
        # for them (a str, a TEXT / PING message object) must be ignored like any other junk
        text = ''.join(rng.choice('abc {}\u00e9\u4e2d\x00') for _ in range(rng.randrange(0, 12)))
        c.append(('websocket-text-message', [('msg', ('text', text))], []))
        c.append(('websocket-text-then-frame', [('msg', ('text', text)), ('frame', {'type': 'REQUEST_N', 'sid': unk, 'n': 1})], [unk]))
        c.append(('websocket-ping-message', [('msg', ('ping', J(rng.randrange(0, 8))))], []))
        c.append(('empty-binary-message', [('raw', b'')], []))
    return c


async def _hostile(rng, desc):
    from ..rawpeer import RawWorld
    from ..apps import make_payload, pkey, DIR_REQUEST, DIR_RESPONSE
    from .. import minicodec
    real = desc['real']
    rw = RawWorld(rng, real, link_kind=desc['link'], frag=desc['frag'])
    world = rw.world
    await rw.start()
    peer = rw.peer
    ep = rw.ep
    await asyncio.sleep(0.2)
    fin, open_rr, open_st = (1, 3, 5) if real == 's' else (2, 4, 6)
    specs = {
        60: {'iid': 60, 'model': 'rr', 'side': 'x', 'resp': {'size': (4, 0), 'outcome': 'ok'}},
        61: {'iid': 61, 'model': 'rr', 'side': 'x', 'resp': {'size': (4, 0), 'outcome': 'never'}},
        62: {'iid': 62, 'model': 'stream', 'side': 'x', 'resp': {'elems': [(6, 0)] * 3, 'terminal': 'never'}},
        50: {'iid': 50, 'model': 'stream', 'side': 'x', 'resp': {'elems': [(20, 3), (1, 0), (300, 0), (7, 7)],
                                                                 'terminal': 'complete', 'pacing': ('sync',)}},
    }
    for i, (dl, ml) in zip((51, 52, 53), ((30, 0), (0, 12), (200, 9))):
        specs[i] = {'iid': i, 'model': 'rr', 'side': 'x', 'resp': {'size': (dl, ml), 'outcome': 'ok'}}
    for i, s in specs.items():
        world.specs[i] = s
        world.inter[i] = {}

    def req(t, sid, iid, n=None):
        p = make_payload(iid, DIR_REQUEST, 0, 12, 0)
        f = {'type': t, 'sid': sid, 'data': p.data, 'metadata': None}
        if n is not None:
            f['n'] = n
        peer.send(f)

    # background streams the hostile frames refer to
    req('REQUEST_RESPONSE', fin, 60)
    req('REQUEST_RESPONSE', open_rr, 61)
    req('REQUEST_STREAM', open_st, 62, 1)
    # probe stream + probe A
    ps = PROBE_STREAM[real]
    pa, pb, pc = PROBE_IDS[real]
    req('REQUEST_STREAM', ps, 50, 1)
    req('REQUEST_RESPONSE', pa, 51)
    own_fut = None
    if real == 'c':
        # the client's own outbound request, answered by the raw peer after the hostile phase
        own_fut = ep.request_response(make_payload(70, DIR_REQUEST, 0, 10, 0))
    await asyncio.sleep(0.5)
    mark = len(rw.link.tap.events)
    stimuli = desc['_stimuli']
    targets = set()
    nstim = 0
    for i, (name, recs, sids) in enumerate(stimuli):
        world.log('stimulus', name=name)
        targets.update(sids)
        for kind, x in recs:
            nstim += 1
            if kind == 'frame':
                peer.send(x)
            elif kind == 'msg':
                peer.send_msg(*x)
            else:
                peer.send_raw(x)
        if i == len(stimuli) // 2:
            req('REQUEST_RESPONSE', pb, 52)
        if desc['spacing'] == 'settle':
            await asyncio.sleep(0.2)
    await asyncio.sleep(0.5)
    req('REQUEST_RESPONSE', pc, 53)
    peer.send({'type': 'REQUEST_N', 'sid': ps, 'n': 5})
    own_sid = None
    if real == 'c':
        for f in rw.real_sent():
            if f['type'] == 'REQUEST_RESPONSE':
                own_sid = f['sid']
        if own_sid is not None:
            peer.send({'type': 'PAYLOAD', 'sid': own_sid, 'next': True, 'complete': True, 'data': b'own-answer',
                       'metadata': None})
    # a subsequent request of the real endpoint's own application (either role may issue requests): it must reach
    # the wire and its answer must reach the caller
    seen_req = {f['sid'] for f in rw.real_sent() if f['type'] == 'REQUEST_RESPONSE'}
    later_fut = ep.request_response(make_payload(71, DIR_REQUEST, 0, 10, 0))
    await asyncio.sleep(0.3)
    later_sid = None
    for f in rw.real_sent():
        if f['type'] == 'REQUEST_RESPONSE' and f['sid'] not in seen_req:
            later_sid = f['sid']
    if later_sid is not None:
        peer.send({'type': 'PAYLOAD', 'sid': later_sid, 'next': True, 'complete': True, 'data': b'later-answer',
                   'metadata': None})
    await asyncio.sleep(1.0)
    # ---- observations
    obs = {'probes': {}, 'stream': None, 'reaction': [], 'tasks': None, 'own': None, 'closed': rw.handler.close_calls,
           'stimuli': nstim}
    obs['later'] = later_fut.done() and not later_fut.cancelled() and later_fut.exception() is None and \
        bytes(later_fut.result().data or b'') == b'later-answer'
    if not obs['later']:
        obs['later_detail'] = {'request_frame_sent': later_sid is not None, 'future_done': later_fut.done()}
        if later_fut.done() and not later_fut.cancelled():
            later_fut.exception()
    for sid, iid in ((pa, 51), (pb, 52), (pc, 53)):
        got = peer.reassembled(sid)
        dl, ml = specs[iid]['resp']['size']
        want = pkey(make_payload(iid, DIR_RESPONSE, 0, dl, ml))
        ok = len(got) == 1 and got[0]['type'] == 'PAYLOAD' and (bytes(got[0].get('data') or b''),
                                                               bytes(got[0].get('metadata') or b'')) == want
        obs['probes'][sid] = ok if ok else [minicodec.brief(f) for f in got]
    got = peer.reassembled(ps)
    elems = [(bytes(f.get('data') or b''), bytes(f.get('metadata') or b'')) for f in got
             if f['type'] == 'PAYLOAD' and f.get('next')]
    want = [pkey(make_payload(50, DIR_RESPONSE, i, dl, ml)) for i, (dl, ml) in enumerate(specs[50]['resp']['elems'])]
    completed = any(f['type'] == 'PAYLOAD' and f.get('complete') for f in got)
    obs['stream'] = True if (elems == want and completed and not any(f['type'] == 'ERROR' for f in got)) else \
        [minicodec.brief(f) for f in got]
    allowed_other = {fin, open_rr, open_st}
    for e in rw.link.tap.events[mark:]:
        if e[1] != real or e[2] != 'send':
            continue
        f = e[3]
        sid = f.get('sid', 0)
        if sid in (pa, pb, pc, ps) or (own_sid is not None and sid == own_sid) or (later_sid is not None and sid == later_sid):
            continue
        if f['type'] == 'ERROR' and (sid in targets or sid == 0):
            continue
        if f['type'] == 'KEEPALIVE' and not f.get('respond') and any(n == 'keepalive-respond' for n, _, _ in stimuli):
            continue
        if f['type'] == 'KEEPALIVE' and f.get('respond') and real == 'c':
            continue
        obs['reaction'].append(minicodec.brief(f))
    try:
        obs['tasks'] = {n: (getattr(ep, n) is not None and not getattr(ep, n).done()) for n in ('_sender_task', '_receiver_task')}
    except AttributeError:
        obs['tasks'] = None
    # the transport's own receive loop (glue links): it must have survived the input as well
    obs['glue'] = []
    lk = rw.link
    if isinstance(getattr(lk, 'tasks', None), dict):
        loops = [(n, t) for n, t in lk.tasks.items() if n in ('glue-' + real, 'handler-' + real)]
        mh = getattr(lk.transports[real], '_message_handler', None)
        if mh is not None and desc['link'] != 'channels':
            loops.append(('_message_handler', mh))
        for n, t in loops:
            if t.done():
                obs['glue'].append((n, 'cancelled' if t.cancelled() else repr(t.exception())))
    if own_fut is not None:
        obs['own'] = own_fut.done() and not own_fut.cancelled() and own_fut.exception() is None and \
            bytes(own_fut.result().data or b'') == b'own-answer'
    await rw.close()
    return obs, world


# ---------------------------------------------------------------------------
# (c) failing application code


FAILS = ['handler-raise-before-await', 'handler-raise-after-await', 'failed-future', 'publisher-raise-subscribe',
         'publisher-raise-request', 'publisher-raise-cancel', 'generator-raise-at-k', 'generator-factory-raises',
         'subscriber-raise-on_next',
         'subscriber-raise-on_subscribe', 'subscriber-raise-on_complete', 'subscriber-raise-on_error',
         'responder-subscriber-raise-on_next', 'fnf-handler-raise', 'push-handler-raise']


def gen_failing(rng, tier):
    from .. import mixgen
    from ..apps import EXC_KINDS
    cfg = mixgen.draw_config(rng)
    cfg['exc_kind'] = rng.choice(EXC_KINDS)
    fail = rng.choice(FAILS)
    side = rng.choice('cs')
    s = {'iid': 1, 'side': side, 'start': mixgen.draw_wait(rng), 'req': (16, 0), 'failing': fail}
    if fail in ('failed-future',):
        s.update(model='rr', resp={'size': (5, 0), 'outcome': 'ok', 'fail': 'failed-future'})
    elif fail.startswith('handler-raise'):
        s.update(model=rng.choice(['rr', 'stream', 'channel']),
                 resp={'size': (5, 0), 'outcome': 'ok', 'elems': [(5, 0)], 'terminal': 'complete',
                       'fail': 'raise-before-await' if 'before' in fail else 'raise-after-await',
                       'handler_delay': ('ticks', 2)}, n0=2, policy=('refill', 1, 0), up=None)
    elif fail == 'fnf-handler-raise':
        s.update(model='fnf', resp={'fail': 'raise-after-await', 'handler_delay': ('ticks', 1)})
    elif fail == 'push-handler-raise':
        s.update(model='push', req=(0, 16), resp={'fail': 'raise-before-await'})
    elif fail.startswith('publisher-raise'):
        what = fail.rsplit('-', 1)[1]
        s.update(model=rng.choice(['stream', 'channel']),
                 resp={'elems': [(5, 0)] * 4, 'terminal': 'complete', 'pacing': ('tick',), 'source': 'rec',
                       'raise_in': (what,)}, n0=2, policy=('refill', 1, 0), up=None)
        if what == 'cancel':
            s['cancel_after'] = 1
    elif fail == 'generator-raise-at-k':
        s.update(model='stream', resp={'elems': [(5, 0)] * rng.choice([0, 1, 3]), 'terminal': 'error',
                                       'source': rng.choice(['gen', 'agen']), 'pacing': ('tick',)},
                 n0=rng.choice([1, 5]), policy=('refill', 2, 0))
    elif fail == 'generator-factory-raises':
        s.update(model='stream', resp={'elems': [], 'terminal': 'error', 'source': rng.choice(['gen', 'agen']),
                                       'pacing': ('tick',), 'factory_raises': True},
                 n0=rng.choice([1, 5]), policy=('refill', 2, 0))
    elif fail.startswith('subscriber-raise'):
        what = fail.split('-raise-')[1]
        s.update(model=rng.choice(['stream', 'channel']),
                 resp={'elems': [(5, 0)] * 3, 'terminal': 'error' if what == 'on_error' else 'complete',
                       'pacing': ('tick',), 'source': 'rec'}, n0=5, policy=('refill', 1, 0), up=None,
                 sub_raise_in=(what,))
    else:
        s.update(model='channel', resp={'elems': [(5, 0)], 'terminal': 'complete', 'source': 'rec', 'up_n0': 5,
                                        'sub_raise_in': ('on_next',)},
                 n0=5, policy=('refill', 1, 0), up={'elems': [(4, 0)] * 3, 'terminal': 'complete', 'pacing': ('tick',),
                                                    'source': 'rec'})
    specs = [s]
    for i in range(rng.choice([1, 2, 3])):
        b = mixgen.draw_spec(rng, 2 + i, cfg, big=0.0, many=0.02, sources=('rec', 'gen'))
        b['bystander'] = True
        b['start'] = rng.choice([('none',), ('ticks', 3), ('virtual', 0.05)])
        specs.append(b)
    # a request issued after everything else has settled
    late = mixgen.draw_spec(rng, 9, cfg, model='rr', big=0.0, many=0.0)
    late['bystander'] = True
    late['start'] = ('virtual', 2.0)
    specs.append(late)
    return cfg, specs


async def _failing(rng, cfg, specs):
    from ..pair import Pair
    p = Pair(rng, cfg)
    p.driver.horizon = 1.0e5      # slow links need a lot of (free) virtual time
    await p.start()
    await p.run_specs(specs)
    tasks = {}
    try:
        for side in 'cs':
            tasks[side] = p.tasks_alive(side)
    except AttributeError:
        tasks = None
    closes = {side: p.handlers[side].close_calls for side in 'cs'}
    sid = getattr(p.world.inter[1].get('stream_handle'), 'stream_id', None)
    await p.close()
    return p, tasks, closes, sid


# ---------------------------------------------------------------------------
# (d) adapters: routing handler and both Rx handler adapters with raising application code


def _adapter_cases():
    out = []
    for adapter in ('routing', 'reactivex', 'rx'):
        for entry in ('rr', 'stream', 'channel', 'fnf', 'push'):
            for how in ('raise', 'ok'):
                out.append({'adapter': adapter, 'entry': entry, 'how': how})
    return out


async def _adapter(rng, case):
    from rsocket.payload import Payload
    from rsocket.rsocket_server import RSocketServer
    from rsocket.rsocket_client import RSocketClient
    from rsocket.extensions.helpers import composite, route
    from rsocket.extensions.mimetypes import WellKnownMimeTypes
    from rsocket.awaitable.awaitable_rsocket import AwaitableRSocket
    from .. import links
    adapter, entry, how = case['adapter'], case['entry'], case['how']
    calls = []
    raising = how == 'raise'

    def boom(name):
        calls.append(name)
        if raising and name == entry:
            raise RuntimeError('app raises in %s' % name)

    if adapter == 'routing':
        from rsocket.routing.request_router import RequestRouter
        from rsocket.routing.routing_request_handler import RoutingRequestHandler
        from rsocket.helpers import create_future
        from rsocket.streams.stream_from_generator import StreamFromGenerator
        router = RequestRouter()

        @router.response('r')
        async def rr(payload):
            boom('rr')
            return create_future(Payload(b'ok-rr'))

        @router.stream('r')
        async def st(payload):
            boom('stream')
            return StreamFromGenerator(lambda: iter([(Payload(b'e1'), False), (Payload(b'e2'), True)]))

        @router.channel('r')
        async def ch(payload):
            boom('channel')
            return StreamFromGenerator(lambda: iter([(Payload(b'c1'), True)])), None

        @router.fire_and_forget('r')
        async def fnf(payload):
            boom('fnf')

        @router.metadata_push('r')
        async def push(payload):
            boom('push')

        def factory():
            return RoutingRequestHandler(router)
        md_enc = WellKnownMimeTypes.MESSAGE_RSOCKET_COMPOSITE_METADATA
    else:
        if adapter == 'reactivex':
            import reactivex as R
            from rsocket.reactivex.reactivex_handler import BaseReactivexHandler as Base
            from rsocket.reactivex.reactivex_handler_adapter import reactivex_handler_factory as fac
            from rsocket.reactivex.reactivex_channel import ReactivexChannel as Chan
        else:
            import rx as R
            from rsocket.rx_support.rx_handler import BaseRxHandler as Base
            from rsocket.rx_support.rx_handler_adapter import rx_handler_factory as fac
            from rsocket.rx_support.rx_channel import RxChannel as Chan

        class H(Base):
            async def request_response(self, payload):
                boom('rr')
                return R.of(Payload(b'ok-rr'))

            async def request_stream(self, payload):
                boom('stream')
                return R.from_iterable([Payload(b'e1'), Payload(b'e2')])

            async def request_channel(self, payload):
                boom('channel')
                return Chan(R.from_iterable([Payload(b'c1')]), None)

            async def request_fire_and_forget(self, payload):
                boom('fnf')

            async def on_metadata_push(self, payload):
                boom('push')

        factory = fac(H)
        md_enc = WellKnownMimeTypes.MESSAGE_RSOCKET_COMPOSITE_METADATA
    link = links.make_link(case.get('link', 'bytes'), rng)
    server = RSocketServer(link.transports['s'], handler_factory=factory)

    async def provider():
        yield link.transports['c']

    from datetime import timedelta
    client = RSocketClient(provider(), metadata_encoding=md_enc, keep_alive_period=timedelta(seconds=1e6),
                           max_lifetime_period=timedelta(seconds=2e6))
    await client.connect()
    aw = AwaitableRSocket(client)
    md = composite(route('r'))
    res = {}

    async def call(name):
        try:
            if name == 'rr':
                r = await asyncio.wait_for(aw.request_response(Payload(b'd', md)), 10)
                return ('ok', bytes(r.data or b''))
            if name == 'stream':
                r = await asyncio.wait_for(aw.request_stream(Payload(b'd', md)), 10)
                return ('ok', [bytes(x.data or b'') for x in r])
            if name == 'channel':
                r = await asyncio.wait_for(aw.request_channel(Payload(b'd', md)), 10)
                return ('ok', [bytes(x.data or b'') for x in r])
            if name == 'fnf':
                await asyncio.wait_for(aw.fire_and_forget(Payload(b'd', md)), 10)
                return ('sent',)
            await asyncio.wait_for(aw.metadata_push(md), 10)
            return ('sent',)
        except asyncio.TimeoutError:
            return ('pending',)
        except Exception as e:
            return ('error', type(e).__name__, str(e)[:80])

    res['target'] = await call(entry)
    await asyncio.sleep(0.5)
    # afterwards every entry point must still be served (the failing one included, it raises again)
    raising_saved = raising
    raising = False
    res['after'] = {n: await call(n) for n in ('rr', 'stream', 'channel', 'fnf', 'push')}
    await asyncio.sleep(0.5)
    errors0 = [e[3] for e in link.tap.events if e[1] == 's' and e[2] == 'send' and e[3]['type'] == 'ERROR'
               and e[3]['sid'] == 0]
    res['errors_on_stream_0'] = [(f['code'], bytes(f['data'])[:60]) for f in errors0]
    res['calls'] = calls
    try:
        res['tasks'] = {n: (getattr(server, n) is not None and not getattr(server, n).done())
                        for n in ('_sender_task', '_receiver_task')}
    except AttributeError:
        res['tasks'] = None
    await client.close()
    await server.close()
    link.stop()
    return res


EXPECT_AFTER = {'rr': ('ok', b'ok-rr'), 'stream': ('ok', [b'e1', b'e2']), 'channel': ('ok', [b'c1']), 'fnf': ('sent',),
                'push': ('sent',)}


def check_adapter(case, res):
    wit = []

    def bad(clause, **kw):
        wit.append({'clause': clause, 'detail': dict(kw, case=case, result={k: v for k, v in res.items()})})

    entry, how = case['entry'], case['how']
    if how == 'ok':
        if res['target'] != EXPECT_AFTER[entry]:
            bad('request-not-served-through-adapter', got=res['target'])
    else:
        if entry in ('rr', 'stream', 'channel'):
            if res['target'][0] != 'error':
                bad('failure-not-reported-on-the-request', got=res['target'])
        elif res['target'] != ('sent',):
            bad('fire-and-forget-or-push-disturbed', got=res['target'])
    for n, want in EXPECT_AFTER.items():
        if res['after'].get(n) != want:
            bad('subsequent-request-not-served', entry_point=n, got=res['after'].get(n), expected=want)
    if entry in res['calls'] or True:
        expected_calls = 2 if True else 1
    if res['calls'].count(entry) < 2:
        bad('application-entry-point-not-reached', entry_point=entry, calls=res['calls'])
    if res['errors_on_stream_0'] and not (how == 'raise' and entry == 'push'):
        bad('error-on-stream-0', errors=res['errors_on_stream_0'])
    if res['tasks'] is not None and not all(res['tasks'].values()):
        bad('endpoint-task-ended', tasks=res['tasks'])
    return wit


# ---------------------------------------------------------------------------


class _debug_logging:
    """Runs a case with the library's logger at DEBUG (records discarded): a deployment option that makes the
    library format every frame it logs."""

    def __init__(self, on):
        self.on = on

    def __enter__(self):
        import logging
        self.lg = logging.getLogger('pyrsocket')
        self.saved = (self.lg.level, self.lg.propagate, list(self.lg.handlers))
        self.disabled = logging.root.manager.disable
        if self.on:
            logging.disable(logging.NOTSET)       # the runner silences all logging; this logger only discards
            self.lg.setLevel(logging.DEBUG)
            self.lg.propagate = False
            self.lg.handlers = [logging.NullHandler()]

    def __exit__(self, *a):
        import logging
        logging.disable(self.disabled)
        self.lg.setLevel(self.saved[0])
        self.lg.propagate = self.saved[1]
        self.lg.handlers = self.saved[2]


def run_case(gen, idx, rng, tier):
    debug = gen in ('hostile-frames', 'failing-app') and rng.random() < 0.25
    with _debug_logging(debug):
        r = _run_case(gen, idx, rng, tier)
    if debug and isinstance(r.get('sample'), dict):
        r['sample']['debug_logging'] = True
        for w in r.get('witnesses', ()):
            w['detail']['debug_logging'] = True
        r.setdefault('counts', {})['runs_with_debug_logging'] = 1
    return r


def _run_case(gen, idx, rng, tier):
    assert_repo()
    from .. import vloop, mixgen
    from ..runner import short_hash
    st = {'parser_inputs': 0, 'hostile_stimuli_sent': 0, 'probes_answered': 0, 'failing_entry_points_exercised': 0,
          'adapter_cases': 0, 'failing_requests_judged': 0}
    if gen == 'parser-fuzz':
        n, wit = run_parser_fuzz(rng)
        st['parser_inputs'] = n
        seen = set()
        ws = [w for w in wit if not (w['clause'] in seen or seen.add(w['clause']))]
        return {'evals': n, 'nt_count': n, 'deciding': st, 'witnesses': ws, 'sample': {'inputs': n}}
    if gen == 'adapters':
        case = _adapter_cases()[idx]
        res = vloop.run(_adapter(rng, case))
        if res['tasks'] is None:
            return {'inconclusive': 'task attributes not found'}
        st['adapter_cases'] = 1
        wit = check_adapter(case, res)
        return {'evals': 1, 'nt_count': 1, 'deciding': st, 'witnesses': wit[:3], 'sample': case}
    if gen == 'hostile-frames':
        real = rng.choice('ssc')
        link = rng.choice(['bytes', 'messages', 'bytes', 'messages'] + list(GLUE_LINKS))
        cat = catalogue(rng, real, link)
        k = rng.choice([1, 1, 2, 3, 5])
        stimuli = [rng.choice(cat) for _ in range(k)]
        if link in GLUE_LINKS and rng.random() < 0.5:
            stimuli[rng.randrange(k)] = rng.choice(cat[-5:])
        desc = {'real': real, 'link': link, 'frag': rng.choice([None, 64]),
                'spacing': rng.choice(['settle', 'b2b']), 'stimuli': [s[0] for s in stimuli], '_stimuli': stimuli}
        obs, world = vloop.run(_hostile(rng, desc))
        if obs['tasks'] is None:
            return {'inconclusive': 'task attributes not found'}
        public = {k2: v for k2, v in desc.items() if not k2.startswith('_')}
        wit = []
        from ..pair import trace_excerpt

        def bad(clause, **kw):
            wit.append({'clause': clause, 'detail': dict(kw, case=public, trace=trace_excerpt(world, 80)[-60:])})

        st['hostile_stimuli_sent'] = obs['stimuli']
        for sid, ok in obs['probes'].items():
            if ok is True:
                st['probes_answered'] += 1
            else:
                bad('probe-request-not-served-correctly', probe_stream=sid, got=ok)
        if obs['stream'] is not True:
            bad('open-stream-disturbed', got=obs['stream'])
        else:
            st['probes_answered'] += 1
        if obs['own'] is False:
            bad('own-request-disturbed')
        if obs['later'] is not True:
            bad('subsequent-own-request-not-served', detail=obs.get('later_detail'))
        else:
            st['probes_answered'] += 1
        if obs['reaction']:
            bad('reaction-other-than-error-on-offending-stream', frames=obs['reaction'][:6])
        if not all(obs['tasks'].values()):
            bad('endpoint-task-ended', tasks=obs['tasks'])
        if obs['closed']:
            bad('connection-closed-by-hostile-input', on_close_calls=obs['closed'])
        if obs['glue']:
            bad('transport-receive-loop-ended', loops=obs['glue'])
        seen = set()
        ws = [w for w in wit if not (w['clause'] in seen or seen.add(w['clause']))]
        return {'evals': 1, 'nt_keys': [short_hash(public)], 'deciding': st, 'witnesses': ws, 'sigs': [world.signature()],
                'counts': dict({'stimulus_' + s[0]: 1 for s in stimuli}, **{'hostile_runs_on_' + link: 1}), 'sample': public}
    # failing-app
    from . import c01
    from ..pair import trace_excerpt
    cfg, specs = gen_failing(rng, tier)
    p, tasks, closes, sid = vloop.run(_failing(rng, cfg, specs))
    if tasks is None:
        return {'inconclusive': 'task attributes not found'}
    world = p.world
    wit = []
    st['failing_entry_points_exercised'] = 1
    by = [s for s in specs if s.get('bystander')]
    counts = {'payloads_emitted': 0, 'payloads_delivered': 0}
    c01.ledger_check(world, by, wit, counts)
    for w in wit:
        w['clause'] = 'bystander-' + w['clause']
    st['probes_answered'] = len(by) if not wit else 0
    fail = specs[0]['failing']
    for side in 'cs':
        alive = tasks[side]
        if not alive['_sender_task'] or not alive['_receiver_task']:
            wit.append({'clause': 'endpoint-task-ended', 'detail': {'endpoint': side, 'tasks': alive, 'failing': fail,
                                                                     'trace': trace_excerpt(world, 80, 1)[-50:]}})
        if closes[side]:
            wit.append({'clause': 'connection-closed-by-failing-application-code',
                        'detail': {'endpoint': side, 'failing': fail, 'trace': trace_excerpt(world, 80, 1)[-50:]}})
    # a failure of the responder's producing code is answered (ERROR on its stream): the requester is not left hanging
    if fail in ('failed-future', 'handler-raise-before-await', 'handler-raise-after-await', 'publisher-raise-subscribe',
                'publisher-raise-request', 'generator-raise-at-k', 'generator-factory-raises'):
        inter = world.inter[1]
        res = inter.get('result')
        sub = inter.get('subscriber')
        # ('pending',) = the requesting application was still waiting at the horizon (10^5 virtual seconds); the
        # on_error it gets when the harness finally tears the connection down does not count
        hanging = res is None or res[0] == 'pending'
        st['failing_requests_judged'] = 1
        if hanging:
            wit.append({'clause': 'failing-producer-left-its-requester-hanging',
                        'detail': {'failing': fail, 'model': specs[0]['model'], 'result': res and list(res),
                                   'subscriber_log': sub.log[-4:] if sub is not None else None,
                                   'trace': trace_excerpt(world, 80, 1)[-50:]}})
    # errors must stay on the failing interaction's own stream
    bad_err = []
    for e in world.events:
        if e['kind'] == 'wire' and e['dir'] == 'send' and e['f']['type'] == 'ERROR':
            if e['f']['sid'] == 0 and fail != 'push-handler-raise':
                bad_err.append(('stream 0', e['ep']))
            elif sid is not None and e['f']['sid'] not in (0, sid) and specs[0]['model'] not in ('rr', 'fnf', 'push'):
                bad_err.append((e['f']['sid'], e['ep']))
    if bad_err:
        wit.append({'clause': 'error-outside-the-offending-stream',
                    'detail': {'errors': bad_err[:4], 'failing': fail, 'offending_stream': sid,
                               'trace': trace_excerpt(world, 80, 1)[-50:]}})
    desc = {'config': mixgen.describe_cfg(cfg), 'interactions': specs}
    seen = set()
    ws = []
    for w in wit:
        if w['clause'] not in seen:
            seen.add(w['clause'])
            w['detail']['config'] = desc['config']
            w['detail']['interactions'] = specs
            ws.append(w)
    return {'evals': 1, 'nt_keys': [short_hash(desc)], 'deciding': st, 'witnesses': ws, 'sigs': [world.signature()],
            'counts': {'failing_' + fail: 1}, 'sample': desc}


def classify(w):
    return None
