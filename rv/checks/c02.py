"""C02 Frame codec round trip, canonical bytes, backend independence."""
import hashlib

from .. import assert_repo

ID = 'C02'
LEVEL = 'exploration'
RULE = ('boundary: mixed-radix enumeration of (frame type x boolean fields x boundary values of every numeric field '
        'x boundary lengths of every byte-string field), complete per type in the thorough tier and stride-sampled '
        'for the large types in the quick tier; random: seeded frames, uniform over the 14 types, log-uniform sizes to '
        '100 kB; big: 64 KiB-boundary and 24-bit-limit lengths. A case is non-trivial when the frame has at least one '
        'non-default field besides its type (distinct = distinct field tuple; enumerated cases are distinct by '
        'construction, random ones are counted by digest). Every frame is checked in this process (cbitstruct backend) '
        'and in a helper process started with cbitstruct blocked (native struct backend); digests must agree.')
ASSUMPTIONS = ['frame values are built by assigning the public attributes of the frame classes, as frame_builders does',
               'cbitstruct is a black box: only its observable results are compared (no memory-safety claim)',
               'METADATA_PUSH is generated on stream 0 only (other ids are deliberately dropped by the decoder)']
DECIDING_REQUIRED = ('frames_roundtripped', 'backend_pairs_compared', 'tcp_writer_compared')
EXHAUSTIVE_GENS = ()
BUDGET_S = {'quick': 80, 'thorough': 1500}

SID = [0, 1, 2, 0x7FFFFFFE, 0x7FFFFFFF]
N32 = [0, 1, 0x7FFFFFFE, 0x7FFFFFFF, 0x80000000, 0xFFFFFFFF]
N31 = [0, 1, 0x7FFFFFFE, 0x7FFFFFFF]
POS = [0, 1, 2 ** 31, 2 ** 32, 2 ** 63 - 2, 2 ** 63 - 1]
LEN = [0, 1, 2, 255, 256]
MIME = [0, 1, 126, 127]
TOK = [0, 1, 255, 256, 65535]
B = [False, True]
CODES = [0x001, 0x002, 0x003, 0x004, 0x101, 0x102, 0x201, 0x202, 0x203, 0x204, 0xFFFFFFFF]
VER = [(1, 0), (0, 0), (0xFFFF, 0xFFFF)]
KA = [(0, 0), (1, 0x7FFFFFFF), (500, 600000), (0xFFFFFFFF, 0xFFFFFFFF)]

DOMAINS = {
    'PAYLOAD': [('sid', SID), ('ignore', B), ('follows', B), ('complete', B), ('next', B), ('ml', LEN), ('dl', LEN)],
    'REQUEST_RESPONSE': [('sid', SID), ('ignore', B), ('follows', B), ('ml', LEN), ('dl', LEN)],
    'REQUEST_FNF': [('sid', SID), ('ignore', B), ('follows', B), ('ml', LEN), ('dl', LEN)],
    'REQUEST_STREAM': [('sid', SID), ('ignore', B), ('follows', B), ('n', N32), ('ml', LEN), ('dl', LEN)],
    'REQUEST_CHANNEL': [('sid', SID), ('ignore', B), ('follows', B), ('complete', B), ('n', N32), ('ml', LEN),
                        ('dl', LEN)],
    'REQUEST_N': [('sid', SID), ('ignore', B), ('n', N32)],
    'CANCEL': [('sid', SID), ('ignore', B)],
    'ERROR': [('sid', SID), ('ignore', B), ('code', CODES), ('dl', LEN)],
    'KEEPALIVE': [('sid', SID), ('ignore', B), ('respond', B), ('position', POS), ('dl', LEN)],
    'LEASE': [('sid', SID), ('ignore', B), ('ttl_ms', N31), ('requests', N31), ('ml', LEN)],
    'METADATA_PUSH': [('sid', [0]), ('ignore', B), ('ml', LEN)],
    'RESUME_OK': [('sid', SID), ('ignore', B), ('position', POS)],
    'RESUME': [('sid', SID), ('ignore', B), ('ver', VER), ('tl', TOK), ('last_server_position', POS),
               ('first_client_position', POS)],
    'SETUP': [('sid', [0, 1, 0x7FFFFFFF]), ('ignore', B), ('ver', VER), ('ka', KA), ('lease', B),
              ('resume_tl', [None] + TOK), ('mml', MIME), ('dml', MIME), ('ml', LEN), ('dl', LEN)],
}
TYPES = list(DOMAINS)


def _size(t):
    n = 1
    for _, dom in DOMAINS[t]:
        n *= len(dom)
    return n


def _bytes(rng, n):
    if n == 0:
        return b''
    if n <= 4096:
        return rng.randbytes(n)
    blk = rng.randbytes(1024)
    return (blk * (n // 1024 + 1))[:n]


def _materialise(t, vals, rng):
    d = {'type': t}
    for (name, _), v in zip(DOMAINS[t], vals):
        if name == 'ml':
            d['metadata'] = _bytes(rng, v)
        elif name == 'dl':
            d['data'] = _bytes(rng, v)
        elif name == 'ver':
            d['major'], d['minor'] = v
        elif name == 'ka':
            d['keepalive_ms'], d['lifetime_ms'] = v
        elif name == 'tl':
            d['token'] = _bytes(rng, v)
        elif name == 'resume_tl':
            d['resume'] = v is not None
            if v is not None:
                d['token'] = _bytes(rng, v)
        elif name == 'mml':
            d['metadata_mime'] = _bytes(rng, v)
        elif name == 'dml':
            d['data_mime'] = _bytes(rng, v)
        else:
            d[name] = v
    return d


def _nth(t, index):
    vals = []
    for _, dom in reversed(DOMAINS[t]):
        index, r = divmod(index, len(dom))
        vals.append(dom[r])
    vals.reverse()
    return vals


BATCH = 400


def _boundary_batches(tier, seed):
    """List of (type, start, step, count)."""
    out = []
    for t in TYPES:
        size = _size(t)
        cap = 4000 if tier == 'quick' else size
        if size <= cap:
            step, n, start = 1, size, 0
        else:
            step = size // cap
            n = cap
            start = seed % step
        done = 0
        while done < n:
            c = min(BATCH, n - done)
            out.append((t, start + done * step, step, c))
            done += c
    return out


def _loguniform(rng, hi):
    import math
    return int(math.exp(rng.random() * math.log(hi + 1))) - 1


def _random_frame(rng):
    t = rng.choice(TYPES)
    d = {'type': t}
    for name, dom in DOMAINS[t]:
        if name == 'sid':
            d['sid'] = 0 if t == 'METADATA_PUSH' else rng.choice([rng.randrange(0, 2 ** 31), rng.choice(SID)])
        elif name in ('ignore', 'follows', 'complete', 'next', 'respond', 'lease'):
            d[name] = rng.random() < 0.5
        elif name == 'n':
            d['n'] = rng.choice([rng.randrange(0, 2 ** 32), rng.choice(N32), rng.randrange(1, 100)])
        elif name in ('ttl_ms', 'requests'):
            d[name] = rng.choice([rng.randrange(0, 2 ** 31), rng.choice(N31)])
        elif name in ('position', 'last_server_position', 'first_client_position'):
            d[name] = rng.choice([rng.randrange(0, 2 ** 63), rng.choice(POS), rng.randrange(0, 2 ** 20)])
        elif name == 'code':
            d['code'] = rng.choice(CODES)
        elif name == 'ml':
            d['metadata'] = _bytes(rng, _loguniform(rng, 100000))
        elif name == 'dl':
            d['data'] = _bytes(rng, _loguniform(rng, 100000))
        elif name == 'ver':
            d['major'], d['minor'] = rng.randrange(0, 65536), rng.randrange(0, 65536)
        elif name == 'ka':
            d['keepalive_ms'], d['lifetime_ms'] = rng.randrange(0, 2 ** 32), rng.randrange(0, 2 ** 32)
        elif name == 'tl':
            d['token'] = _bytes(rng, _loguniform(rng, 65535))
        elif name == 'resume_tl':
            d['resume'] = rng.random() < 0.5
            if d['resume']:
                d['token'] = _bytes(rng, _loguniform(rng, 65535))
        elif name == 'mml':
            d['metadata_mime'] = _bytes(rng, rng.randrange(0, 128))
        elif name == 'dml':
            d['data_mime'] = _bytes(rng, rng.randrange(0, 128))
    return d


BIG = [65535, 65536, 70000, 131072]


def _big_frames(rng, idx, tier):
    out = []
    for t in ('PAYLOAD', 'REQUEST_RESPONSE', 'REQUEST_STREAM', 'REQUEST_CHANNEL', 'REQUEST_FNF', 'SETUP'):
        ml = BIG[idx % len(BIG)]
        dl = BIG[(idx // len(BIG)) % len(BIG)] if idx % 3 else rng.choice([0, 1])
        d = {'type': t, 'sid': 0 if t == 'SETUP' else rng.randrange(1, 2 ** 31), 'metadata': _bytes(rng, ml),
             'data': _bytes(rng, dl), 'n': rng.randrange(1, 2 ** 31), 'keepalive_ms': 1, 'lifetime_ms': 2,
             'complete': idx & 1 == 1}
        out.append(d)
    out.append({'type': 'METADATA_PUSH', 'sid': 0, 'metadata': _bytes(rng, BIG[idx % len(BIG)])})
    out.append({'type': 'ERROR', 'sid': 5, 'code': 0x201, 'data': _bytes(rng, BIG[idx % len(BIG)])})
    out.append({'type': 'KEEPALIVE', 'sid': 0, 'data': _bytes(rng, BIG[idx % len(BIG)]), 'respond': True})
    if tier == 'thorough' and idx == 0:
        out.append({'type': 'PAYLOAD', 'sid': 1, 'metadata': _bytes(rng, 2 ** 24 - 32), 'data': b'x', 'next': True})
        out.append({'type': 'REQUEST_STREAM', 'sid': 1, 'n': 1, 'metadata': _bytes(rng, 2 ** 24 - 32), 'data': b''})
    return out


def frames_for(gen, idx, rng, tier, seed):
    if gen == 'boundary':
        t, start, step, count = _boundary_batches(tier, seed)[idx]
        return [_materialise(t, _nth(t, start + i * step), rng) for i in range(count)]
    if gen == 'random':
        return [_random_frame(rng) for _ in range(150)]
    if gen == 'big':
        return _big_frames(rng, idx, tier)
    raise KeyError(gen)


class _Writer:
    def __init__(self):
        self.chunks = []

    def write(self, b):
        self.chunks.append(bytes(b))

    async def drain(self):
        return None


def _drive(coro):
    try:
        coro.send(None)
    except StopIteration:
        return
    raise RuntimeError('coroutine suspended unexpectedly')


def check_frame(d, with_reference=True):
    """Returns (digest, witnesses, stats)."""
    from rsocket import frame as F
    from rsocket.transports.tcp import TransportTCP
    from .. import libcodec, minicodec
    wit = []
    st = {'ref_disagree': 0, 'tcp': 0}
    h = hashlib.sha256()
    expected = libcodec.norm(d)
    try:
        f = libcodec.build(d)
        b1 = f.serialize()
        g = F.parse_or_ignore(b1)
    except Exception as e:
        wit.append({'clause': 'codec-raises-on-in-range-value', 'detail': {'frame': _brief(d), 'error': repr(e)}})
        return 'raise:' + type(e).__name__, wit, st
    h.update(b1)
    if g is None:
        wit.append({'clause': 'decode-drops-frame', 'detail': {'frame': _brief(d)}})
        return h.hexdigest(), wit, st
    try:
        got = libcodec.to_dict(g)
    except Exception as e:
        wit.append({'clause': 'decode-incomplete', 'detail': {'frame': _brief(d), 'error': repr(e)}})
        return h.hexdigest(), wit, st
    h.update(repr(sorted((k, bytes(v) if isinstance(v, (bytes, bytearray)) else v) for k, v in got.items())).encode())
    if got != expected:
        diff = {k: (expected.get(k), got.get(k)) for k in set(expected) | set(got) if expected.get(k) != got.get(k)}
        wit.append({'clause': 'decode-differs', 'detail': {'frame': _brief(d), 'fields(expected,got)': _clip(diff)}})
    try:
        b2 = g.serialize()
    except Exception as e:
        b2 = b'raise:' + repr(e).encode()
    h.update(b2)
    if b2 != b1:
        wit.append({'clause': 'reencode-differs', 'detail': {'frame': _brief(d), 'first_diff_at': _first_diff(b1, b2),
                                                             'len': (len(b1), len(b2))}})
    # one-shot with length prefix
    full = F.serialize_with_frame_size_header(libcodec.build(d))
    if full[:3] != len(b1).to_bytes(3, 'big') or full[3:] != b1:
        wit.append({'clause': 'length-prefix-wrong', 'detail': {'frame': _brief(d), 'prefix': full[:3].hex(),
                                                                'body_len': len(b1)}})
    # incremental form
    f2 = libcodec.build(d)
    chunks = [bytes(F.serialize_prefix_with_frame_size_header(f2))]
    f2.write_data_metadata(lambda c: chunks.append(bytes(c)))
    inc = b''.join(chunks)
    h.update(inc)
    if inc != full:
        wit.append({'clause': 'incremental-differs', 'detail': {'frame': _brief(d),
                                                                'first_diff_at': _first_diff(full, inc),
                                                                'len': (len(full), len(inc))}})
    # what TransportTCP.send_frame writes
    w = _Writer()
    tr = TransportTCP(None, w)
    _drive(tr.send_frame(libcodec.build(d)))
    tcp = b''.join(w.chunks)
    st['tcp'] = 1
    if tcp != full:
        wit.append({'clause': 'tcp-writer-differs', 'detail': {'frame': _brief(d),
                                                               'first_diff_at': _first_diff(full, tcp),
                                                               'len': (len(full), len(tcp))}})
    # a frame object that was already encoded once (or decoded from the wire) and whose payload was assigned
    # afterwards is a frame value like any other: its incremental form must state the length it has now
    if isinstance(d.get('data'), (bytes, bytearray)):
        d2 = dict(d, data=bytes(d['data'])[:len(d['data']) // 2] if len(d['data']) > 8 else bytes(d['data']) + b'+7bytes')
        try:
            full2 = F.serialize_with_frame_size_header(libcodec.build(d2))
            for label, obj in (('encoded-before', libcodec.build(d)), ('decoded', g)):
                if label == 'encoded-before':
                    obj.serialize()
                obj.data = d2['data']
                chunks = [bytes(F.serialize_prefix_with_frame_size_header(obj))]
                obj.write_data_metadata(lambda c: chunks.append(bytes(c)))
                inc2 = b''.join(chunks)
                st['reused'] = st.get('reused', 0) + 1
                if inc2 != full2:
                    wit.append({'clause': 'incremental-differs-on-reused-frame-object',
                                'detail': {'frame': _brief(d), 'object': label, 'new_data_len': len(d2['data']),
                                           'first_diff_at': _first_diff(full2, inc2), 'len': (len(full2), len(inc2))}})
        except Exception as e:
            wit.append({'clause': 'codec-raises-on-in-range-value', 'detail': {'frame': _brief(d), 'reused': True,
                                                                              'error': repr(e)}})
    if with_reference:
        try:
            ref = dict(expected)
            if ref['type'] in libcodec.HAS_METADATA:
                ref['metadata'] = ref['metadata'] if ref['metadata'] else None
            if minicodec.encode(ref) != b1:
                st['ref_disagree'] = 1
        except Exception:
            st['ref_disagree'] = 1
    return h.hexdigest(), wit, st


def _first_diff(a, b):
    for i, (x, y) in enumerate(zip(a, b)):
        if x != y:
            return i
    return min(len(a), len(b))


def _clip(o):
    if isinstance(o, (bytes, bytearray)):
        return o if len(o) <= 40 else 'hex:%s..(%d)' % (bytes(o[:16]).hex(), len(o))
    if isinstance(o, dict):
        return {k: _clip(v) for k, v in o.items()}
    if isinstance(o, (tuple, list)):
        return [_clip(v) for v in o]
    return o


def _brief(d):
    return _clip(dict(d))


def _nontrivial(d):
    for k, v in d.items():
        if k == 'type':
            continue
        if v not in (0, False, None, b'', 1) or k in ('n',):
            return True
    return False


# --- helper process with the native backend ---------------------------------


def helper_case(gen, idx, rng, tier):
    out = []
    for d in frames_for(gen, idx, rng, tier, rng.rv_seed):
        dg, wit, _ = check_frame(d, with_reference=False)
        out.append([dg, [w['clause'] for w in wit]])
    return out


# --- check interface ----------------------------------------------------------

_SEED = 0


def plan(tier, seed):
    global _SEED
    _SEED = seed
    return [('boundary', len(_boundary_batches(tier, seed))),
            ('random', 1200 if tier == 'quick' else 12000),
            ('big', 8 if tier == 'quick' else 48)]


def run_case(gen, idx, rng, tier):
    assert_repo()
    import rsocket.frame as F
    seed = getattr(rng, 'rv_seed', _SEED)
    frames = frames_for(gen, idx, rng, tier, seed)
    default_is_cbit = F.ParseHelper.parse_header is not F.parse_header_native
    witnesses = []
    digests = []
    nt_keys = []
    nt_count = 0
    stats = {'frames_roundtripped': 0, 'tcp_writer_compared': 0, 'reference_disagreements': 0}
    per_type = {}
    for d in frames:
        dg, wit, st = check_frame(d)
        digests.append(dg)
        stats['frames_roundtripped'] += 1
        stats['tcp_writer_compared'] += st['tcp']
        stats['reference_disagreements'] += st['ref_disagree']
        per_type[d['type']] = per_type.get(d['type'], 0) + 1
        if _nontrivial(d):
            if gen == 'random':
                nt_keys.append(dg[:16])
            else:
                nt_count += 1
        for w in wit:
            w['detail']['backend'] = 'cbitstruct' if default_is_cbit else 'native'
            witnesses.append(w)
    from .. import native_helper
    hello, other = native_helper.ask('rv.checks.c02', gen, idx, tier, seed)
    compared = 0
    if hello.get('native') and default_is_cbit:
        if len(other) != len(digests):
            witnesses.append({'clause': 'backend-differs', 'detail': {'reason': 'corpus length differs'}})
        for d, a, (b, clauses) in zip(frames, digests, other):
            compared += 1
            if a != b:
                witnesses.append({'clause': 'backend-differs', 'detail': {'frame': _brief(d)}})
            for c in clauses:
                if a == b:
                    break
                witnesses.append({'clause': c, 'detail': {'frame': _brief(d), 'backend': 'native'}})
    stats['backend_pairs_compared'] = compared
    counts = {'frames_' + k: v for k, v in per_type.items()}
    counts['reference_disagreements'] = stats.pop('reference_disagreements')
    # keep the result small: one witness per clause per case
    seen = set()
    ws = []
    for w in witnesses:
        if w['clause'] not in seen:
            seen.add(w['clause'])
            ws.append(w)
    return {'evals': len(frames), 'nt_keys': nt_keys, 'nt_count': nt_count, 'deciding': stats, 'counts': counts,
            'witnesses': ws,
            'sample': {'generator': gen, 'frames_in_case': len(frames), 'first_frame': _brief(frames[0]),
                       'last_frame': _brief(frames[-1])}}


def classify(w):
    return None
