"""C03 Fragmentation and reassembly are exact and respect the size limit."""
from .. import assert_repo

ID = 'C03'
LEVEL = 'exploration'
RULE = ('window: for each (fragment size, frame variant, framing mode) every (data length, metadata length) pair in '
        '0..W x 0..W is fragmented with Frame.get_next_fragment, every fragment is serialised as the transport would, '
        'measured, parsed back with the real decoder and reassembled with a real FrameFragmentCache; enumerated without '
        'repetition, a pair is non-trivial when it yields >= 2 fragments; large: seeded random sizes up to 200 kB '
        '(distinct by (variant, sizes, limit, mode)).')
ASSUMPTIONS = ['frames are built by rsocket.frame_builders exactly as the library builds them before queuing',
               'a fragment\'s wire size is len(serialize()) plus the 3-byte length prefix on byte-stream transports']
DECIDING_REQUIRED = ('fragments_measured', 'reassemblies_compared', 'multi_fragment_frames', 'metadata_then_data_frames')
EXHAUSTIVE_GENS = ('window',)
BUDGET_S = {'quick': 100, 'thorough': 2400}

VARIANTS = [('PAYLOAD', False), ('PAYLOAD', True), ('REQUEST_RESPONSE', False), ('REQUEST_FNF', False),
            ('REQUEST_STREAM', False), ('REQUEST_CHANNEL', False), ('REQUEST_CHANNEL', True)]
HDR = {'PAYLOAD': 6, 'REQUEST_RESPONSE': 6, 'REQUEST_FNF': 6, 'REQUEST_STREAM': 10, 'REQUEST_CHANNEL': 10}

SIZES = {'quick': [64, 65, 66, 67, 100], 'thorough': [64, 65, 66, 67, 68, 69, 70, 71, 72, 100, 127, 128, 129, 255, 256, 1024]}


def _window(limit, tier):
    if tier == 'quick':
        w = min(3 * limit + 8, 140)
        return list(range(0, w + 1))
    if limit <= 129:
        return list(range(0, 3 * limit + 9))
    # lattice: small values, +-2 around multiples of the body budgets, stride elsewhere
    pts = set(range(0, 12))
    for k in range(0, 4):
        for budget in (limit - 6, limit - 9, limit - 10, limit - 13, limit - 12, limit - 16):
            for d in range(-3, 4):
                v = k * budget + d
                if 0 <= v <= 3 * limit + 8:
                    pts.add(v)
    pts.update(range(0, 3 * limit + 9, 37))
    return sorted(pts)


ROWS_PER_CASE = 12


def _window_cases(tier):
    out = []
    for limit in SIZES[tier]:
        win = _window(limit, tier)
        for vi in range(len(VARIANTS)):
            for mode in (True, False):
                for r0 in range(0, len(win), ROWS_PER_CASE):
                    out.append((limit, vi, mode, r0))
    return out


_PATTERN = bytes(range(256)) * 4


def _pat(n, salt):
    if n == 0:
        return b''
    off = salt % 251
    reps = (n + off) // len(_PATTERN) + 2
    return (_PATTERN * reps)[off:off + n]


def _build(kind, complete, sid, n, data, metadata, limit):
    from rsocket import frame_builders as fb
    from rsocket.payload import Payload
    p = Payload(data, metadata)
    if kind == 'PAYLOAD':
        return fb.to_payload_frame(sid, p, complete=complete, is_next=True, fragment_size_bytes=limit)
    if kind == 'REQUEST_RESPONSE':
        return fb.to_request_response_frame(sid, p, limit)
    if kind == 'REQUEST_FNF':
        return fb.to_fire_and_forget_frame(sid, p, limit)
    if kind == 'REQUEST_STREAM':
        return fb.to_request_stream_frame(sid, p, limit, initial_request_n=n)
    if kind == 'REQUEST_CHANNEL':
        return fb.to_request_channel_frame(sid, p, limit, initial_request_n=n, complete=complete)
    raise KeyError(kind)


_LOOP = None


def _ensure_loop():
    # to_fire_and_forget_frame creates a future, which needs a current event loop
    global _LOOP
    if _LOOP is None:
        import asyncio
        _LOOP = asyncio.new_event_loop()
        asyncio.set_event_loop(_LOOP)


def fragment_and_check(kind, complete, dl, ml, limit, length_header, sid=7, n=5, salt=0):
    """Returns (n_fragments, witnesses, flags) for one frame."""
    from rsocket.frame import parse_or_ignore
    from rsocket.frame_fragment_cache import FrameFragmentCache
    from .. import libcodec
    data = _pat(dl, salt + 1)
    metadata = _pat(ml, salt + 101)
    wit = []
    ctx = {'type': kind, 'complete': complete, 'data_len': dl, 'metadata_len': ml, 'fragment_size': limit,
           'length_prefix': length_header}

    def bad(clause, **kw):
        d = dict(ctx)
        d.update(kw)
        wit.append({'clause': clause, 'detail': d})

    _ensure_loop()
    frame = _build(kind, complete, sid, n, data, metadata, limit)
    bound = dl + ml + 3
    frags = []
    while True:
        try:
            fr = frame.get_next_fragment(length_header)
        except Exception as e:
            bad('fragmenter-raises', error=repr(e))
            return len(frags), wit, {}
        if fr is None:
            break
        frags.append(fr)
        if len(frags) > bound:
            bad('fragmenter-does-not-terminate', produced=len(frags))
            return len(frags), wit, {}
    if not frags:
        bad('zero-fragments')
        return 0, wit, {}
    overhead = 3 if length_header else 0
    whole = HDR[kind] + (3 + ml if ml else 0) + dl + overhead
    if whole <= limit and len(frags) != 1:
        bad('fitting-frame-was-fragmented', fragments=len(frags), whole_wire_size=whole)
    cache = FrameFragmentCache()
    seen_data = False
    result = None
    got_md = bytearray()
    got_d = bytearray()
    for i, fr in enumerate(frags):
        last = i == len(frags) - 1
        raw = fr.serialize()
        wire = len(raw) + overhead
        d = libcodec.snapshot(fr)
        if wire > limit:
            md = d.get('metadata')
            bad('fragment-exceeds-limit', index=i, wire_size=wire, overshoot=wire - limit,
                has_metadata=bool(md), fragment_metadata_len=len(md or b''), fragment_data_len=len(d.get('data') or b''))
        if i == 0:
            if d['type'] != kind:
                bad('first-fragment-wrong-type', got=d['type'])
            if kind in ('REQUEST_STREAM', 'REQUEST_CHANNEL') and d.get('n') != n:
                bad('first-fragment-request-n', got=d.get('n'), expected=n)
        elif d['type'] != 'PAYLOAD':
            bad('later-fragment-not-payload', index=i, got=d['type'])
        if d.get('sid') != sid:
            bad('fragment-stream-id', index=i, got=d.get('sid'))
        if bool(d.get('follows')) != (not last):
            bad('follows-flag-wrong', index=i, follows=d.get('follows'), is_last=last)
        if d.get('complete') and not last:
            bad('complete-on-non-last-fragment', index=i)
        if last and kind in ('PAYLOAD', 'REQUEST_CHANNEL') and bool(d.get('complete')) != complete:
            bad('complete-flag-lost-or-invented', got=d.get('complete'))
        if d.get('metadata') and seen_data:
            bad('metadata-after-data', index=i)
        if d.get('data'):
            seen_data = True
        got_md += d.get('metadata') or b''
        got_d += d.get('data') or b''
        try:
            parsed = parse_or_ignore(raw)
            result = cache.append(parsed)
        except Exception as e:
            bad('reassembly-raises', index=i, error=repr(e))
            return len(frags), wit, {}
        if not last and result is not None:
            bad('reassembly-yields-early', index=i)
    if bytes(got_md) != metadata or bytes(got_d) != data:
        bad('fragments-do-not-concatenate-to-original', got_metadata_len=len(got_md), got_data_len=len(got_d))
    if result is None:
        bad('reassembly-yields-nothing')
    else:
        r = libcodec.to_dict(result)
        exp = {'type': kind, 'sid': sid, 'metadata': metadata, 'data': data}
        if kind in ('REQUEST_STREAM', 'REQUEST_CHANNEL'):
            exp['n'] = n
        if kind in ('PAYLOAD', 'REQUEST_CHANNEL'):
            exp['complete'] = complete
        if kind == 'PAYLOAD' and (dl or ml):
            # an empty payload is the library's 'no element'; the next flag is only owed to content
            exp['next'] = True
        diff = {k: 'differs' if isinstance(v, bytes) else (v, r.get(k)) for k, v in exp.items() if r.get(k) != v}
        if diff:
            bad('reassembled-frame-differs', fields=diff, got_data_len=len(r.get('data', b'')),
                got_metadata_len=len(r.get('metadata', b'')))
        if len(cache._frames_by_stream_id) != 0:
            bad('reassembly-cache-not-empty')
    flags = {'multi': len(frags) >= 2, 'md_then_data': bool(ml and dl and len(frags) >= 2)}
    return len(frags), wit, flags


def plan(tier, seed):
    return [('window', len(_window_cases(tier))), ('large', 200 if tier == 'quick' else 6000)]


def run_case(gen, idx, rng, tier):
    assert_repo()
    witnesses = []
    st = {'fragments_measured': 0, 'reassemblies_compared': 0, 'multi_fragment_frames': 0,
          'metadata_then_data_frames': 0}
    if gen == 'window':
        limit, vi, mode, r0 = _window_cases(tier)[idx]
        kind, complete = VARIANTS[vi]
        win = _window(limit, tier)
        rows = win[r0:r0 + ROWS_PER_CASE]
        evals = 0
        nt = 0
        seen_clauses = set()
        for dl in rows:
            for ml in win:
                nfr, wit, fl = fragment_and_check(kind, complete, dl, ml, limit, mode, salt=dl * 7 + ml)
                evals += 1
                st['fragments_measured'] += nfr
                st['reassemblies_compared'] += 1
                if fl.get('multi'):
                    nt += 1
                    st['multi_fragment_frames'] += 1
                if fl.get('md_then_data'):
                    st['metadata_then_data_frames'] += 1
                for w in wit:
                    k = (w['clause'], classify(w))
                    if k not in seen_clauses:
                        seen_clauses.add(k)
                        witnesses.append(w)
        return {'evals': evals, 'nt_count': nt, 'deciding': st, 'witnesses': witnesses,
                'counts': {'frames_fragmented': evals},
                'sample': {'fragment_size': limit, 'type': kind, 'complete': complete, 'length_prefix': mode,
                           'data_lengths': [rows[0], rows[-1]], 'metadata_lengths': [win[0], win[-1]],
                           'pairs': evals}}
    # large
    kind, complete = VARIANTS[rng.randrange(len(VARIANTS))]
    limit = rng.choice([64, 65, 70, 100, 128, 1000, 1024, 4096, 16384, 65536, rng.randrange(64, 3000)])
    mode = rng.random() < 0.5
    shape = rng.randrange(4)
    hi = 200000
    if shape == 0:
        dl, ml = rng.randrange(0, hi), rng.randrange(0, 300)
    elif shape == 1:
        dl, ml = rng.randrange(0, 300), rng.randrange(0, hi)
    elif shape == 2:
        dl, ml = rng.randrange(0, 20000), rng.randrange(0, 20000)
    else:
        k = rng.randrange(1, 40)
        dl = max(0, k * (limit - 9) + rng.randrange(-3, 4))
        ml = max(0, rng.randrange(1, 40) * (limit - 12) + rng.randrange(-3, 4))
    if limit <= 100:
        dl, ml = min(dl, 30000), min(ml, 30000)
    nfr, wit, fl = fragment_and_check(kind, complete, dl, ml, limit, mode, sid=rng.randrange(1, 2 ** 31),
                                      n=rng.randrange(1, 2 ** 31), salt=idx)
    st['fragments_measured'] += nfr
    st['reassemblies_compared'] += 1
    st['multi_fragment_frames'] += 1 if fl.get('multi') else 0
    st['metadata_then_data_frames'] += 1 if fl.get('md_then_data') else 0
    seen = set()
    for w in wit:
        k = (w['clause'], classify(w))
        if k not in seen:
            seen.add(k)
            witnesses.append(w)
    desc = {'type': kind, 'complete': complete, 'fragment_size': limit, 'length_prefix': mode, 'data_len': dl,
            'metadata_len': ml, 'fragments': nfr}
    return {'evals': 1, 'nt_keys': ['%s|%s|%d|%d|%d|%s' % (kind, complete, limit, dl, ml, mode)] if fl.get('multi') else [],
            'deciding': st, 'witnesses': witnesses, 'counts': {'frames_fragmented': 1}, 'sample': desc}


def classify(w):
    d = w.get('detail', {})
    if w.get('clause') == 'fragment-exceeds-limit' and d.get('has_metadata') and 0 < d.get('overshoot', 99) <= 3:
        # the 24-bit metadata-length field is not part of the fragmenter's budget
        return 'frag-metadata-length-field-unbudgeted'
    return None
