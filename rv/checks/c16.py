"""C16 Setup handshake: faithful SETUP first; correct accept/reject."""
import asyncio
from datetime import timedelta

from .. import assert_repo
from ..links import ANY_LINK

ID = 'C16'
LEVEL = 'exploration'
RULE = ('client: seeded client configurations (keep-alive / max-lifetime timedeltas incl. sub-second parts, MIME types as '
        'enum / str / bytes / custom names up to 127 bytes, setup payload none / data / metadata / both, lease flag) x '
        'transports whose connect() and provider suspend 0..3 ticks or a virtual delay x 0..5 requests of every type '
        'issued by other tasks at every tick of the connection sequence, against a raw server; the first frame on the '
        'wire must be the one SETUP and every decoded field must equal the configuration. server: every combination of '
        '{resume flag, lease flag, lease publisher configured, on_setup raises} x framing x setup payload, plus RESUME '
        'frames, sent by a raw client to a real server. non-trivial = a client case with >= 1 concurrent request or a '
        'suspending connect (distinct by case digest); every server combination is distinct by construction.')
ASSUMPTIONS = ['timedeltas are generated in whole milliseconds (the statement does not fix a rounding mode for smaller parts)',
               'requests are issued after connect() has started (before that the client has no stream state at all)']
DECIDING_REQUIRED = ('client_setups_decoded', 'requests_issued_while_connecting', 'server_setups_sent', 'resume_frames_sent',
                     'on_setup_calls_checked')
EXHAUSTIVE_GENS = ('server',)
BUDGET_S = {'quick': 90, 'thorough': 1500}


def plan(tier, seed):
    return [('client', 3000 if tier == 'quick' else 40000), ('server', len(_server_cases()))]


TD_MS = [1, 2, 499, 500, 501, 999, 1000, 1001, 1500, 2750, 60000, 120250, 600000, 24 * 24 * 3600 * 1000,
         2 ** 31 - 1, 2 ** 31, 30 * 24 * 3600 * 1000, 2 ** 32 - 1]      # the fields are 32 bits wide


def _mime(rng):
    from rsocket.extensions.mimetypes import WellKnownMimeTypes
    k = rng.randrange(4)
    known = [m for m in WellKnownMimeTypes if m.value.id >= 0]
    if k == 0:
        m = rng.choice(known)
        return m, m.value.name
    if k == 1:
        m = rng.choice(known)
        return m.value.name.decode(), m.value.name
    if k == 2:
        m = rng.choice(known)
        return m.value.name, m.value.name
    n = rng.choice([1, 2, 20, 126, 127])
    name = bytes(rng.choice(b'abcdefghijklmnopqrstuvwxyz/.-+') for _ in range(n))
    return (name if rng.random() < 0.5 else name.decode()), name


async def _client_case(rng, desc):
    from rsocket.payload import Payload
    from ..rawpeer import RawWorld
    from ..links import Knobs
    from ..apps import RecSubscriber, make_payload, DIR_REQUEST, DIR_RESPONSE
    kn = Knobs(rng)
    kn.connect = tuple(desc['connect'])
    kw = dict(keep_alive_period=timedelta(milliseconds=desc['ka_ms']),
              max_lifetime_period=timedelta(milliseconds=desc['ml_ms']),
              data_encoding=desc['_data_enc'], metadata_encoding=desc['_md_enc'], honor_lease=desc['lease'])
    if desc.get('lease_pub'):
        # the client is also a responder: a lease publisher that emits inside subscribe() or a tick later
        from rsocket.lease import DefinedLease

        class Pub:
            def subscribe(self, subscriber):
                lease = DefinedLease(maximum_request_count=5, maximum_lease_time=timedelta(seconds=3))
                if desc['lease_pub'] == 'sync':
                    subscriber.on_next(lease)
                else:
                    asyncio.get_event_loop().call_soon(subscriber.on_next, lease)

        kw['lease_publisher'] = Pub()
    if desc['payload'] != 'none':
        d = rng.randbytes(desc['pl_d']) if 'd' in desc['payload'] else None
        m = rng.randbytes(desc['pl_m']) if 'm' in desc['payload'] else None
        kw['setup_payload'] = Payload(d, m)
        desc['_payload'] = (d or b'', m or b'')
    else:
        desc['_payload'] = (b'', b'')
    rw = RawWorld(rng, 'c', link_kind=desc['link'], knobs=kn, frag=desc['frag'], client_kwargs=kw)
    # provider that may suspend: wrap RawWorld.start by building the client ourselves
    await rw.start(connect=False)
    if desc['provider_wait'][0] != 'none':
        from ..apps import _pace
        link = rw.link
        inner = rw.ep._transport_provider

        async def slow_provider():
            await _pace(tuple(desc['provider_wait']))
            async for t in inner:
                yield t

        rw.ep._transport_provider = slow_provider().__aiter__()
    world = rw.world
    connect_task = asyncio.ensure_future(rw.ep.connect())
    issued = []

    async def issuer(i, kind, ticks):
        for _ in range(ticks):
            await asyncio.sleep(0)
        p = make_payload(100 + i, DIR_REQUEST, 0, 12, 0)
        try:
            if kind == 'rr':
                rw.ep.request_response(p)
            elif kind == 'fnf':
                rw.ep.fire_and_forget(p)
            elif kind == 'push':
                rw.ep.metadata_push(b'RVrvpush')
            elif kind == 'stream':
                rw.ep.request_stream(p).initial_request_n(2).subscribe(
                    RecSubscriber(world, 100 + i, DIR_RESPONSE, 'sub%d' % i, policy=('never',)))
            else:
                rw.ep.request_channel(p).initial_request_n(2).subscribe(
                    RecSubscriber(world, 100 + i, DIR_RESPONSE, 'sub%d' % i, policy=('never',)))
            issued.append((kind, ticks, connect_task.done()))
        except Exception as e:
            issued.append((kind, ticks, 'raised %r' % e))

    tasks = [asyncio.ensure_future(issuer(i, k, t)) for i, (k, t) in enumerate(desc['requests'])]
    await asyncio.wait([connect_task] + tasks)
    if desc['lease']:
        rw.peer.send({'type': 'LEASE', 'sid': 0, 'ttl_ms': 60000, 'requests': 100, 'metadata': None})
    await asyncio.sleep(2.0)
    sent = rw.real_sent()
    await rw.close()
    return sent, issued


def _check_client(desc, sent, issued):
    from ..minicodec import brief
    wit = []

    def bad(clause, **kw):
        wit.append({'clause': clause, 'detail': dict(kw, case={k: v for k, v in desc.items() if not k.startswith('_')},
                                                     first_frames=[brief(f) for f in sent[:6]], issued=issued)})

    if not sent:
        bad('nothing-sent')
        return wit
    setups = [f for f in sent if f['type'] == 'SETUP']
    if sent[0]['type'] != 'SETUP':
        bad('first-frame-not-setup', first=brief(sent[0]))
    if len(setups) != 1:
        bad('setup-count', count=len(setups))
    if not setups:
        return wit
    s = setups[0]
    exp = {'sid': 0, 'major': 1, 'minor': 0, 'keepalive_ms': desc['ka_ms'], 'lifetime_ms': desc['ml_ms'],
           'lease': desc['lease'], 'resume': False, 'data_mime': desc['_data_name'], 'metadata_mime': desc['_md_name'],
           'data': desc['_payload'][0], 'metadata': desc['_payload'][1]}
    got = {k: (s.get(k) if k not in ('data', 'metadata') else (s.get(k) or b'')) for k in exp}
    diff = {k: (exp[k], got[k]) for k in exp if exp[k] != got[k]}
    if diff:
        bad('setup-field-differs', fields={k: [_c(a), _c(b)] for k, (a, b) in diff.items()})
    return wit


def _c(v):
    if isinstance(v, (bytes, bytearray)) and len(v) > 24:
        return 'hex:%s..(%d)' % (bytes(v[:12]).hex(), len(v))
    return v


def _server_cases():
    out = []
    for link in ('bytes', 'messages'):
        for resume in (False, True):
            for lease in (False, True):
                for publisher in (False, True):
                    for raises in (False, 'runtime', 'value', 'protocol-rejected', 'protocol-application', 'stream-id-in-use'):
                        for payload in ('none', 'd', 'm', 'dm'):
                            out.append({'link': link, 'resume': resume, 'lease': lease, 'publisher': publisher,
                                        'raises': raises, 'payload': payload, 'frame': 'SETUP'})
        for pre in ('none', 'setup'):
            out.append({'link': link, 'frame': 'RESUME', 'after': pre})
    return out


async def _server_case(rng, case):
    from ..rawpeer import RawWorld, setup_frame
    from rsocket.lease import SingleLeasePublisher
    kw = {}
    if case.get('publisher'):
        kw['lease_publisher'] = SingleLeasePublisher(maximum_request_count=5, maximum_lease_time=timedelta(seconds=3))
    # whether the server itself honours leases as a requester has nothing to do with being able to grant them
    case['server_honors_lease'] = bool(rng.random() < 0.4)
    if case['server_honors_lease']:
        kw['honor_lease'] = True
    rw = RawWorld(rng, 's', link_kind=case['link'], server_kwargs=kw)
    await rw.start(send_setup=False)
    if case.get('raises'):
        from rsocket.exceptions import RSocketProtocolError, RSocketStreamIdInUse
        from rsocket.error_codes import ErrorCode
        rw.handler.raise_in = ('on_setup',)
        rw.handler.raise_exc = {'runtime': RuntimeError('on_setup raises'), 'value': ValueError('bad setup'),
                                'protocol-rejected': RSocketProtocolError(ErrorCode.REJECTED, data='no'),
                                'protocol-application': RSocketProtocolError(ErrorCode.APPLICATION_ERROR, data='no'),
                                'stream-id-in-use': RSocketStreamIdInUse(0)}[case['raises']]
    expect_payload = (b'', b'')
    if case['frame'] == 'SETUP':
        d = b'setup-data' if 'd' in case['payload'] else b''
        m = b'setup-metadata' if 'm' in case['payload'] else None
        expect_payload = (d, m or b'')
        # resume tokens of every length are resume requests, the empty one included
        token = rng.choice([b'', b'', b't', b'tok', rng.randbytes(16), rng.randbytes(300)])
        case['token_len'] = len(token)
        rw.peer.send(setup_frame(lease=case['lease'], resume=case['resume'], token=token, data=d, metadata=m,
                                 data_mime=b'text/plain', metadata_mime=b'application/x.custom'))
    else:
        if case['after'] == 'setup':
            rw.peer.send(setup_frame())
        rw.peer.send({'type': 'RESUME', 'sid': 0, 'token': b'tok', 'last_server_position': 1, 'first_client_position': 2})
    await asyncio.sleep(2.0)
    errors0 = [f for f in rw.peer.frames('ERROR', 0)]
    leases = rw.peer.frames('LEASE')
    calls = list(rw.handler.setup_calls)
    # the connection must still serve a request afterwards when the SETUP was acceptable
    await rw.close()
    return errors0, calls, expect_payload, leases


def _check_server(case, errors0, calls, expect_payload):
    from ..minicodec import ERROR_CODES
    wit = []

    def bad(clause, **kw):
        wit.append({'clause': clause, 'detail': dict(kw, case=case, errors_on_stream_0=[
            (ERROR_CODES.get(f['code'], f['code']), bytes(f['data'])[:40]) for f in errors0], on_setup_calls=len(calls))})

    if case['frame'] == 'RESUME':
        want = 0x004
        if [f['code'] for f in errors0] != [want]:
            bad('resume-not-rejected-with-REJECTED_RESUME')
        return wit
    if case['resume'] or (case['lease'] and not case['publisher']):
        want, want_calls = 0x002, 0
    elif case['raises']:
        want, want_calls = 0x003, 1
    else:
        want, want_calls = None, 1
    codes = [f['code'] for f in errors0]
    if want is None:
        if codes:
            bad('acceptable-setup-answered-with-error')
    elif codes != [want]:
        bad('wrong-setup-error', expected=ERROR_CODES[want])
    if len(calls) != want_calls:
        bad('on_setup-call-count', expected=want_calls)
    elif calls and want_calls == 1:
        de, me, pl = calls[0]
        if de != b'text/plain' or me != b'application/x.custom' or pl != expect_payload:
            bad('on_setup-arguments', got=[de, me, [_c(pl[0]), _c(pl[1])]])
    return wit


def run_case(gen, idx, rng, tier):
    assert_repo()
    from .. import vloop
    from ..runner import short_hash
    st = {'client_setups_decoded': 0, 'requests_issued_while_connecting': 0, 'server_setups_sent': 0,
          'resume_frames_sent': 0, 'on_setup_calls_checked': 0}
    if gen == 'server':
        case = _server_cases()[idx]
        errors0, calls, expect_payload, leases = vloop.run(_server_case(rng, case))
        wit = _check_server(case, errors0, calls, expect_payload)
        if case['frame'] == 'SETUP':
            st['server_setups_sent'] = 1
            st['on_setup_calls_checked'] = 1
        else:
            st['resume_frames_sent'] = 1
        return {'evals': 1, 'nt_count': 1, 'deciding': st, 'witnesses': wit, 'sample': case}
    d_enc, d_name = _mime(rng)
    m_enc, m_name = _mime(rng)
    desc = {'link': rng.choice(ANY_LINK), 'frag': rng.choice([None, 64, 100]),
            'ka_ms': rng.choice(TD_MS + [rng.randrange(1, 10 ** 7)]),
            # lifetimes below the connection delay make the client give up before it ever connects (nothing to judge)
            'ml_ms': rng.choice([m for m in TD_MS if m >= 1000] + [rng.randrange(1000, 10 ** 7)]),
            'lease': rng.random() < 0.25,
            'lease_pub': None,
            'payload': rng.choice(['none', 'd', 'm', 'dm']), 'pl_d': rng.choice([1, 20, 64, 300]),
            'pl_m': rng.choice([1, 20, 64, 300]),
            'connect': rng.choice([('none',), ('ticks', 1), ('ticks', 2), ('ticks', 3), ('virtual', 0.01)]),
            'provider_wait': rng.choice([('none',), ('none',), ('ticks', 1), ('ticks', 3), ('virtual', 0.02)]),
            'requests': [(rng.choice(['rr', 'fnf', 'stream', 'channel', 'push']), rng.randrange(1, 8))
                         for _ in range(rng.choice([0, 1, 2, 3, 5]))],
            'data_encoding': repr(d_enc), 'metadata_encoding': repr(m_enc),
            '_data_enc': d_enc, '_md_enc': m_enc, '_data_name': d_name, '_md_name': m_name}
    if desc['lease']:
        desc['lease_pub'] = rng.choice([None, 'sync', 'tick'])
    # keepalives far apart so that they do not interleave with the frames under test
    if desc['ka_ms'] < 500:
        desc['requests'] = desc['requests'][:2]
    sent, issued = vloop.run(_client_case(rng, desc))
    wit = _check_client(desc, sent, issued)
    st['client_setups_decoded'] = 1 if any(f['type'] == 'SETUP' for f in sent) else 0
    st['requests_issued_while_connecting'] = sum(1 for k, t, done in issued if done is False)
    public = {k: v for k, v in desc.items() if not k.startswith('_')}
    nontrivial = bool(desc['requests']) or desc['connect'][0] != 'none' or desc['provider_wait'][0] != 'none'
    return {'evals': 1, 'nt_keys': [short_hash(public)] if nontrivial else [], 'deciding': st, 'witnesses': wit[:3],
            'sample': public}


def classify(w):
    return None
