"""C15 Keepalive: echo, periodic emission, timeout detection."""
import asyncio
from datetime import timedelta

from .. import assert_repo
from ..links import ANY_LINK

ID = 'C15'
LEVEL = 'exploration'
RULE = ('echo: a raw peer sends seeded sequences of KEEPALIVE frames (respond flag on/off, data 0..1000 bytes, bursts, '
        'random positions) to a real client and to a real server; the endpoint\'s KEEPALIVE sends must be exactly the '
        'echoes owed, in order. periodic/timeout: a real client with keep-alive period P in 50 ms..10 s and maximum '
        'lifetime L in P/2..20P against a raw server that acknowledges always / never / until time s / with delay d / '
        'dropping every k-th, all under the virtual clock; gaps between the client\'s respond-flagged KEEPALIVEs must '
        'be in [P, P+eps]; the timeout callback must not fire in a run whose measured arrival gaps were all <= L and '
        'must have fired by last arrival + 2L + eps in a run that ends with a silence > 2L. non-trivial = an echo '
        'sequence with >= 2 respond-flagged frames / a periodic run with >= 3 periods; distinct by case digest.')
ASSUMPTIONS = ['eps = 1 ms of virtual time for scheduling plus the configured link delay',
               '"invoke it once the server has been silent for more than two maximum lifetimes" is read as: at least one '
               'invocation no later than last arrival + 2L + eps',
               'the liveness baseline is the construction of the client, which the harness connects immediately']
DECIDING_REQUIRED = ('echoes_checked', 'periods_measured', 'runs_no_false_timeout_clause', 'runs_detection_clause')
BUDGET_S = {'quick': 90, 'thorough': 1500}


def plan(tier, seed):
    return [('echo', 3000 if tier == 'quick' else 30000), ('periodic', 3000 if tier == 'quick' else 40000),
            ('reconnect-silent', 150 if tier == 'quick' else 3000)]


async def _echo(rng, desc):
    from ..rawpeer import RawWorld
    rw = RawWorld(rng, desc['real'], link_kind=desc['link'])
    await rw.start()
    await asyncio.sleep(0.5)
    since = len(rw.link.tap.events)
    for fr in desc['_frames']:
        rw.peer.send(fr)
        if fr.get('_gap'):
            await asyncio.sleep(fr['_gap'])
    await asyncio.sleep(2.0)
    sent = [f for f in rw.real_sent(since) if f['type'] == 'KEEPALIVE']
    others = [f for f in rw.real_sent(since) if f['type'] not in ('KEEPALIVE',)]
    await rw.close()
    return sent, others


async def _periodic(rng, d):
    from ..rawpeer import RawWorld
    from ..links import Knobs
    kn = Knobs(rng)
    kn.latency = ('virtual', d['link_delay']) if d['link_delay'] else ('none',)
    rw = RawWorld(rng, 'c', link_kind=d['link'], knobs=kn, keepalive=d['P'], max_lifetime=d['L'])
    # raw peer's own direction delay
    rw2 = rw
    await rw.start()
    t0 = asyncio.get_event_loop().time()
    peer = rw.peer
    loop = asyncio.get_event_loop()
    arrivals = []
    acked = [0]

    async def acker():
        seen = 0
        while True:
            await peer.wait_for(lambda f: False, timeout=d['P'] / 4 + 1e-3, since=len(peer.received))
            while seen < len(peer.received):
                t, f = peer.received[seen]
                seen += 1
                if f.get('type') != 'KEEPALIVE' or not f.get('respond'):
                    continue
                k = acked[0]
                acked[0] += 1
                mode = d['ack']
                if mode[0] == 'never':
                    continue
                if mode[0] == 'until' and loop.time() - t0 > mode[1]:
                    continue
                if mode[0] == 'drop' and k % mode[1] == mode[1] - 1:
                    continue
                delay = mode[1] if mode[0] == 'delay' else 0.0

                async def send_later(fr=dict(f), delay=delay):
                    if delay:
                        await asyncio.sleep(delay)
                    fr['respond'] = False
                    peer.send(fr)

                asyncio.ensure_future(send_later())

    async def pinger(every, until):
        # the server's own respond-flagged KEEPALIVEs: arrivals in the sense of the statement, acknowledged or not
        k = 0
        while until is None or loop.time() - t0 <= until:
            await asyncio.sleep(every)
            k += 1
            peer.send({'type': 'KEEPALIVE', 'sid': 0, 'respond': True, 'data': b'ping%d' % k, 'position': 0})

    async def traffic():
        # steady outbound traffic over a link whose writes take time: the send queue is never empty when the
        # keepalive timer fires
        from ..apps import make_payload, DIR_REQUEST
        # bursts of 8 frames every P/4, each write taking P/40: the queue holds frames 80 % of the time and
        # drains completely between bursts, so a queued KEEPALIVE waits at most 0.2 P
        rw.link.knobs['c'].drain = ('virtual', d['P'] / 40.0)
        k = 0
        while True:
            for _ in range(8):
                k += 1
                rw.ep.fire_and_forget(make_payload(1000 + k, DIR_REQUEST, 0, 12, 0))
            await asyncio.sleep(d['P'] / 4.0)

    ack_task = asyncio.ensure_future(acker())
    ping_task = asyncio.ensure_future(pinger(*d['ping'])) if d.get('ping') else None
    traffic_task = asyncio.ensure_future(traffic()) if d.get('traffic') else None
    await asyncio.sleep(d['duration'])
    ack_task.cancel()
    if ping_task is not None:
        ping_task.cancel()
    if traffic_task is not None:
        traffic_task.cancel()
    # arrivals at the client: its own tap
    ka_recv = [e[0] for e in rw.link.tap.events if e[1] == 'c' and e[2] == 'recv' and e[3]['type'] == 'KEEPALIVE']
    ka_sent = [e[0] for e in rw.link.tap.events if e[1] == 'c' and e[2] == 'send' and e[3]['type'] == 'KEEPALIVE'
               and e[3].get('respond')]
    timeouts = [e for e in rw.world.events if e['kind'] == 'on_keepalive_timeout']
    t_end = loop.time()
    await rw.close()
    pings = [e[3] for e in rw.link.tap.events if e[1] == 'c' and e[2] == 'recv' and e[3]['type'] == 'KEEPALIVE'
             and e[3].get('respond')]
    pongs = [e[3] for e in rw.link.tap.events if e[1] == 'c' and e[2] == 'send' and e[3]['type'] == 'KEEPALIVE'
             and not e[3].get('respond')]
    d['_pings'], d['_pongs'] = pings, pongs
    return t0, ka_sent, ka_recv, [(e['t'], e['since']) for e in timeouts], t_end


def run_case(gen, idx, rng, tier):
    assert_repo()
    from .. import vloop
    from ..runner import short_hash
    st = {'echoes_checked': 0, 'periods_measured': 0, 'runs_no_false_timeout_clause': 0, 'runs_detection_clause': 0}
    wit = []
    if gen == 'reconnect-silent':
        return run_reconnect_silent(idx, rng, tier)
    if gen == 'echo':
        n = rng.choice([1, 2, 3, 8, 20])
        frames = []
        for i in range(n):
            dl = rng.choice([0, 0, 1, 7, 100, 1000, rng.randrange(0, 1001)])
            frames.append({'type': 'KEEPALIVE', 'sid': 0, 'respond': rng.random() < 0.6, 'data': rng.randbytes(dl),
                           'position': rng.choice([0, 1, rng.randrange(0, 2 ** 63)]),
                           '_gap': rng.choice([0, 0, 0, 1e-3, 0.1])})
        desc = {'real': rng.choice('cs'), 'link': rng.choice(ANY_LINK),
                'frames': [{'respond': f['respond'], 'data_len': len(f['data']), 'gap': f['_gap']} for f in frames],
                '_frames': frames}
        sent, others = vloop.run(_echo(rng, desc))
        want = [(bytes(f['data'])) for f in frames if f['respond']]
        got = [bytes(f.get('data') or b'') for f in sent if not f.get('respond')]
        st['echoes_checked'] = len(want)
        public = {k: v for k, v in desc.items() if not k.startswith('_')}
        if any(f.get('respond') for f in sent):
            wit.append({'clause': 'echo-carries-respond-flag', 'detail': {'case': public}})
        if got != want:
            clause = 'echo-missing' if len(got) < len(want) else ('unsolicited-or-duplicate-echo' if len(got) > len(want)
                                                                   else 'echo-data-differs')
            wit.append({'clause': clause, 'detail': {'case': public, 'expected_echoes': len(want), 'got': len(got),
                                                     'first_lengths_expected': [len(x) for x in want[:5]],
                                                     'first_lengths_got': [len(x) for x in got[:5]]}})
        if others:
            from ..minicodec import brief
            wit.append({'clause': 'keepalive-answered-with-other-frame',
                        'detail': {'case': public, 'frames': [brief(f) for f in others[:4]]}})
        nt = sum(1 for f in frames if f['respond']) >= 2
        return {'evals': 1, 'nt_keys': [short_hash(public)] if nt else [], 'deciding': st, 'witnesses': wit,
                'sample': public}
    # periodic / timeout
    P = rng.choice([0.05, 0.1, 0.5, 1.0, 2.5, 10.0])
    L = P * rng.choice([0.5, 1.0, 1.5, 2.0, 3.0, 5.0, 20.0])
    ack = rng.choice([('always',), ('always',), ('never',), ('until', rng.choice([1, 2, 3, 5, 8]) * P),
                      ('delay', rng.choice([0.1, 0.5, 0.9, 1.5, 3.0]) * L), ('drop', rng.choice([2, 3, 5]))])
    d = {'P': P, 'L': L, 'ack': list(ack), 'link': rng.choice(ANY_LINK),
         'link_delay': rng.choice([0, 0, 1e-4, 1e-3]), 'duration': max(12 * P, 4 * L) + rng.choice([0, P / 2])}
    d['ack'] = ack
    d['traffic'] = rng.random() < 0.2
    if rng.random() < 0.3:
        # server-originated pings at intervals below / around / above the lifetime, for ever or until some time
        d['ping'] = (L * rng.choice([0.3, 0.9, 1.0, 1.2, 2.5]), rng.choice([None, None, rng.choice([1, 3, 6]) * P]))
    t0, ka_sent, ka_recv, timeouts, t_end = vloop.run(_periodic(rng, d))
    public = {k: v for k, v in dict(d, ack=list(ack)).items() if not k.startswith('_')}
    if d.get('ping') and first_timeout_none(timeouts):
        want = [bytes(f.get('data') or b'') for f in d['_pings']]
        got = [bytes(f.get('data') or b'') for f in d['_pongs']]
        st['echoes_checked'] += len(want)
        if got != want[:len(got)] or len(got) < len(want) - 1:
            wit.append({'clause': 'echo-missing' if len(got) < len(want) else 'unsolicited-or-duplicate-echo',
                        'detail': {'case': public, 'pings_received': len(want), 'echoes_sent': len(got)}})
    eps = 1e-3 + 2 * d['link_delay']
    if d.get('traffic'):
        eps += P / 2.0      # a KEEPALIVE may wait behind the frames already queued (a handful of writes of P/40 each)
    # (b) periodic emission while the client considers the server alive
    first_timeout = timeouts[0][0] if timeouts else None
    sends = [t for t in ka_sent if first_timeout is None or t <= first_timeout]
    prev = t0
    for k, t in enumerate(sends, 1):
        gap = t - prev
        st['periods_measured'] += 1
        if d.get('traffic'):
            # the k-th KEEPALIVE is due at t0 + k P and may additionally wait behind frames already queued
            wrong = not (k * P - 1e-9 <= t - t0 <= k * P + eps)
        else:
            wrong = gap < P - 1e-9 or gap > P + eps
        if wrong:
            wit.append({'clause': 'keepalive-period-wrong', 'detail': {'case': public, 'gap': gap, 'at': t - t0, 'index': k,
                                                                         'sends_rel': [round(x - t0, 6) for x in ka_sent[:8]]}})
            break
        prev = t
    if sends:
        prev = sends[-1]
    alive_until = first_timeout if first_timeout is not None else t_end
    if alive_until - prev > P + eps and first_timeout is None:
        wit.append({'clause': 'keepalive-emission-stopped', 'detail': {'case': public, 'last_send_rel': prev - t0,
                                                                         'run_length': t_end - t0}})
    # (c)/(d) timeout callback
    pts = [t0] + ka_recv
    gaps = [b - a for a, b in zip(pts, pts[1:])]
    # arrival gaps up to the first timeout (afterwards the client has given up on the connection)
    if first_timeout is None:
        horizon_gaps = gaps + [t_end - pts[-1]]
    else:
        before = [p for p in pts if p <= first_timeout]
        horizon_gaps = [b - a for a, b in zip(before, before[1:])] + [first_timeout - before[-1]]
    if max(horizon_gaps) <= L:
        st['runs_no_false_timeout_clause'] = 1
        if timeouts:
            wit.append({'clause': 'false-keepalive-timeout',
                        'detail': {'case': public, 'max_arrival_gap': max(horizon_gaps), 'timeout_at_rel': first_timeout - t0,
                                   'arrivals_rel': [round(x - t0, 6) for x in ka_recv[:10]]}})
    last_arrival = pts[-1] if first_timeout is None else max(p for p in pts if p <= first_timeout)
    silence = (t_end if first_timeout is None else first_timeout) - last_arrival
    if first_timeout is None and t_end - last_arrival > 2 * L + eps:
        st['runs_detection_clause'] = 1
        wit.append({'clause': 'silence-not-detected',
                    'detail': {'case': public, 'silent_for': t_end - last_arrival, 'two_lifetimes': 2 * L,
                               'arrivals_rel': [round(x - t0, 6) for x in ka_recv[-5:]]}})
    elif first_timeout is not None:
        st['runs_detection_clause'] = 1
        if first_timeout - last_arrival > 2 * L + eps:
            wit.append({'clause': 'silence-detected-late',
                        'detail': {'case': public, 'detected_after': first_timeout - last_arrival, 'two_lifetimes': 2 * L}})
    nt = len(ka_sent) >= 3
    return {'evals': 1, 'nt_keys': [short_hash(public)] if nt else [], 'deciding': st, 'witnesses': wit[:3],
            'counts': {'ack_' + ack[0]: 1, 'timeouts_observed': len(timeouts), 'runs_with_server_pings': 1 if d.get('ping') else 0},
            'sample': public}


def first_timeout_none(timeouts):
    return not timeouts


def classify(w):
    return None



# ---------------------------------------------------------------------------
# detection on every connection of a reconnecting client: servers that answer for a while (or never) and then fall
# silent; the application reconnects from the timeout callback; the next server may be silent from the start


async def _reconnect_silent(rng, d):
    from datetime import timedelta
    from rsocket.rsocket_client import RSocketClient
    from .. import links
    from ..apps import World, ScriptedHandler
    from ..pair import Driver
    from ..rawpeer import RawPeer
    world = World()
    driver = Driver(world, 30.0)
    loop = asyncio.get_event_loop()
    P, L = d['P'], d['L']
    conns = []

    def new_conn():
        i = len(conns)
        kc = links.Knobs(rng)
        kc.connect = tuple(d['connect'])          # a transport whose connect() takes a moment
        link = links.make_link(d['link'], rng, kc, None)
        peer = RawPeer(link, 's')
        c = {'index': i, 'link': link, 'peer': peer, 't0': None, 'answer_until': d['answer_for'][i % len(d['answer_for'])]}
        conns.append(c)

        async def acker():
            seen = 0
            while not (peer.eof or peer.error is not None or link.broken):
                await asyncio.sleep(P / 4)
                while seen < len(peer.received):
                    t, f = peer.received[seen]
                    seen += 1
                    if c['t0'] is None:
                        c['t0'] = t
                    if f.get('type') == 'KEEPALIVE' and f.get('respond') and t - c['t0'] <= c['answer_until']:
                        fr = dict(f)
                        fr['respond'] = False
                        peer.send(fr)
        c['acker'] = asyncio.ensure_future(acker())
        return c

    async def provider():
        while len(conns) < d['connections']:
            c = new_conn()
            yield c['link'].transports['c']

    h = ScriptedHandler(world, 'c', driver)
    callbacks = []          # (time, index of the connection that was current)

    async def hook(rs):
        n = len(conns) - 1
        first = not any(k == n for _, k in callbacks)
        callbacks.append((loop.time(), n))
        if first and len(conns) < d['connections']:
            await rs.reconnect()
    h.on_keepalive_timeout_hook = hook
    client = RSocketClient(provider(), handler_factory=lambda: h, keep_alive_period=timedelta(seconds=P),
                           max_lifetime_period=timedelta(seconds=L))
    await client.connect()
    await asyncio.sleep(d['connections'] * (max(d['answer_for']) + 4 * L) + 5.0)
    out = {'callbacks': callbacks, 'conns': [(c['index'], c['t0'], c['answer_until']) for c in conns]}
    try:
        await client.close()
    except Exception:
        pass
    for c in conns:
        c['acker'].cancel()
        c['peer'].stop()
        c['link'].stop()
    return out


def run_reconnect_silent(idx, rng, tier):
    from .. import vloop
    from ..runner import short_hash
    L = rng.choice([0.5, 2.0, 7.0])
    d = {'link': rng.choice(['bytes', 'messages']), 'P': L / rng.choice([2, 4, 10]), 'L': L, 'connections': rng.choice([2, 3]),
         'answer_for': [rng.choice([0.0, 0.0, 0.6 * L, 2.5 * L]) for _ in range(3)],
         'connect': rng.choice([('none',), ('ticks', 2), ('virtual', 0.01), ('virtual', 0.2)])}
    d['timer_lateness'] = rng.choice([0.0, 2e-5, 1e-3])
    obs = vloop.run(_reconnect_silent(rng, d), lateness=d['timer_lateness'])
    wit = []
    st = {'echoes_checked': 0, 'periods_measured': 0, 'runs_no_false_timeout_clause': 0, 'runs_detection_clause': 0,
          'silent_connections_judged': 0}
    for index, t0, answer_until in obs['conns']:
        if t0 is None:
            continue
        st['silent_connections_judged'] += 1
        mine = [t for t, k in obs['callbacks'] if k == index]
        silent_from = t0 + answer_until
        # the last KEEPALIVE arrives no later than silent_from + P; the callback is due once the silence exceeds two
        # maximum lifetimes (one for the lifetime itself, one for the period of the check)
        due = silent_from + d['P'] + 2 * d['L'] + 0.05 + 2000 * d['timer_lateness']
        if not mine or min(mine) > due:
            wit.append({'clause': 'timeout-callback-missing-on-silent-connection',
                        'detail': {'case': d, 'connection': index, 'connected_at': t0, 'server_silent_from': silent_from,
                                   'callback_due_by': due, 'callbacks': obs['callbacks'][:8]}})
        early = [t for t in mine if t < silent_from + d['L'] - 1e-6]
        if early:
            wit.append({'clause': 'timeout-callback-while-server-alive',
                        'detail': {'case': d, 'connection': index, 'server_silent_from': silent_from, 'callbacks': early[:4]}})
    if len(obs['conns']) < d['connections']:
        wit.append({'clause': 'reconnect-from-timeout-callback-did-not-happen',
                    'detail': {'case': d, 'connections_made': len(obs['conns']), 'callbacks': obs['callbacks'][:8]}})
    st['runs_detection_clause'] = 1
    return {'evals': 1, 'nt_keys': [short_hash(d)], 'deciding': st, 'witnesses': wit[:2], 'sample': d,
            'counts': {'reconnect_silent_runs': 1}}
