"""C11 Connection loss or close fails everything pending, exactly once (fault enumeration)."""
import random

from .. import assert_repo

ID = 'C11'
LEVEL = 'fault_enumeration'
RULE = ('a deterministic scenario (pending request-response awaiting a late future, stream mid-flight with outstanding '
        'credit, channel with one direction completed, multi-fragment frames in flight in both directions, a handler '
        'suspended in an await, in both roles on both endpoints, keepalive period 1 s) is executed once to record how many '
        'bytes / messages each direction delivers and at which virtual instants anything happens; it is then re-executed '
        'once per fault point: cut after exactly k delivered bytes (every frame boundary -1/0/+1 and a stride in the '
        'quick tier, every offset in the thorough tier) in each direction as orderly EOF or transport error, cut after '
        'every message index on the message link, explicit close() by either endpoint just before / after every '
        'distinct instant, failure of the n-th write, and application code that raises inside the clean-up itself. '
        'Each fault point is a distinct case; non-trivial = at least one interaction was pending when the fault hit. '
        'after-loss: seeded cases in which the connection ends (EOF / error / peer close), the application of one '
        'endpoint then issues 1..3 further requests of any model, and that endpoint is closed: every one of them must '
        'be resolved (or its call must have raised) after close().')
ASSUMPTIONS = ['pending at the moment of the fault = the API call was made before the endpoint delivered on_close',
               'task attributes _sender_task/_receiver_task/_keepalive_task are read after the settle; a missing '
               'attribute makes the check inconclusive',
               'settle = 12 virtual seconds (12 keepalive periods) after the scenario horizon']
DECIDING_REQUIRED = ('fault_points_run', 'pending_requests_judged', 'producers_judged', 'on_close_checked',
                     'cuts_inside_fragment_runs', 'requests_issued_after_loss_judged')
BUDGET_S = {'quick': 100, 'thorough': 2400}

N_SCENARIOS = {'quick': 6, 'thorough': 24}
T_REF = 1.5
SETTLE = 12.0
TERMINALS = ('on_complete', 'on_next_complete', 'on_error')


def scenario(k):
    """Deterministic scenario number k: (cfg, specs)."""
    from .. import links
    from ..apps import MAX_N
    rng = random.Random(7000 + k)
    link = 'bytes' if k % 3 != 2 else 'messages'
    frag = rng.choice([64, 64, 100, None]) if k % 4 else 64

    def knobs():
        kn = links.Knobs(rng)
        kn.latency = ('virtual', rng.choice([1e-3, 2e-3]))
        kn.chunking = ('whole',)
        kn.drain = ('none',)
        kn.read_buffer_size = rng.choice([16, 1024, 65536])
        return kn

    cfg = {'link': link, 'frag_c': frag, 'frag_s': frag, 'knobs_c': knobs(), 'knobs_s': knobs(),
           'keepalive': 1.0, 'max_lifetime': 1000.0, 'horizon': 40.0}
    specs = []
    iid = 1
    for side in 'cs':
        kinds = ['rr-late', 'stream-mid', 'channel-half', 'rr-big']
        rng.shuffle(kinds)
        kinds = kinds[:rng.choice([3, 4])]
        if k % 3 == 0:
            # a handler suspended in an await blocks that endpoint's receive loop (recorded known finding); kept out
            # of the other scenarios so that it cannot mask anything there
            kinds.append('handler-suspended')
        for kind in kinds:
            s = {'iid': iid, 'side': side, 'start': ('virtual', rng.choice([0.0, 0.01, 0.05]))}
            if kind == 'rr-late':
                s.update(model='rr', req=(20, 0), resp={'size': (10, 0), 'outcome': 'never'})
            elif kind == 'rr-big':
                s.update(model='rr', req=(rng.choice([300, 500]), 40),
                         resp={'size': (rng.choice([300, 700]), 0), 'outcome': 'ok', 'delay': ('virtual', 0.2)})
            elif kind == 'handler-suspended':
                s.update(model=rng.choice(['rr', 'stream']), req=(16, 0),
                         resp={'size': (5, 0), 'outcome': 'ok', 'handler_delay': ('virtual', 500.0), 'elems': [(5, 0)],
                               'terminal': 'complete', 'pacing': ('sync',)})
                s['n0'] = 3
                s['policy'] = ('refill', 3, 0)
            elif kind == 'stream-mid':
                s.update(model='stream', req=(12, 10),
                         resp={'elems': [(rng.choice([30, 150, 200]), 0) for _ in range(8)], 'terminal': 'never',
                               'pacing': ('timed', 0.05), 'source': rng.choice(['rec', 'rec', 'gen', 'agen'])})
                s['n0'] = rng.choice([2, 5, MAX_N])
                s['policy'] = ('refill', 2, 0)
            else:
                s.update(model='channel', req=(16, 0),
                         resp={'elems': [(40, 0), (160, 0)], 'terminal': rng.choice(['complete', 'never']),
                               'pacing': ('timed', 0.03), 'source': 'rec', 'up_n0': 3, 'up_policy': ('refill', 2, 0)},
                         up={'elems': [(150, 0), (20, 5), (90, 0)], 'terminal': 'never', 'pacing': ('timed', 0.04),
                             'source': 'rec'})
                s['n0'] = 4
                s['policy'] = ('refill', 2, 0)
            specs.append(s)
            iid += 1
    return cfg, specs


async def _run(k, fault):
    """fault: None | ('bytes', side, offset, mode) | ('close', side, t) | ('write', side, n) |
    ('raise', what, index) combined with ('bytes', ...)."""
    import asyncio
    from ..pair import Pair
    cfg, specs = scenario(k)
    rng = random.Random(9000 + k)
    p = Pair(rng, cfg)
    await p.start()
    link = p.link
    world = p.world
    extra = None
    if fault is not None:
        for f in fault if isinstance(fault[0], tuple) else (fault,):
            kind = f[0]
            if kind == 'bytes':
                link.cut_after(f[1], f[2], f[3])
            elif kind == 'write':
                link.write_fail_at[f[1]] = f[2]
            elif kind == 'close':
                async def closer(side=f[1], t=f[2]):
                    await asyncio.sleep(t)
                    world.log('explicit_close', who=side)
                    await p.ep(side).close()
                extra = asyncio.ensure_future(closer())
            elif kind == 'raise':
                what = f[1]
                from ..apps import EXC_KINDS
                world.exc_kind = EXC_KINDS[(k + len(what) + (0 if fault[1][0] == 'bytes' else 3)) % len(EXC_KINDS)]
                if what == 'on_close-c':
                    p.handlers['c'].raise_in = ('on_close',)
                elif what == 'on_close-s':
                    p.handlers['s'].raise_in = ('on_close',)
                else:
                    for s in specs:
                        if what == 'pub-cancel' and s['model'] in ('stream', 'channel'):
                            s['resp']['raise_in'] = ('cancel',)       # RecPublisher.cancel / the generators' on_cancel
                        if what == 'sub-on_error' and s['model'] in ('stream', 'channel'):
                            s['sub_raise_in'] = ('on_error',)
    for s in specs:
        world.specs[s['iid']] = s
        world.inter[s['iid']] = {}
    tasks = [asyncio.ensure_future(p.driver.run_interaction(p.ep(s['side']), s['side'], s)) for s in specs]
    await asyncio.sleep(T_REF)
    # a fault point that was not reached within the scenario (e.g. an n-th write that never happened) is not a case
    fault_hit = link.broken is not None or any(e['kind'] == 'explicit_close' for e in world.events)
    await asyncio.sleep(SETTLE)
    settled_at = len(world.events)
    t_settled = asyncio.get_event_loop().time()
    produced_at_settle = {(s['iid'], d_): g['next_calls'] for s in specs
                          for d_, g in world.inter[s['iid']].get('gen_sources', {}).items()}
    await asyncio.sleep(3.0)      # anything sent in here is sent after the settle began
    obs = {'fault_hit': fault_hit, 'tasks': {}, 'delivered': {s: link.delivered(s) for s in 'cs'}, 'broken': link.broken,
           'settled_at': settled_at, 't_settled': t_settled}
    try:
        for side in 'cs':
            obs['tasks'][side] = p.tasks_alive(side)
    except AttributeError:
        obs['tasks'] = None
    # what the applications have seen by now is what is judged: the harness's own close() below fails whatever is
    # still registered (that is what close() is for) and must not be credited to the clean-up under test
    from ..apps import DIR_RESPONSE, DIR_CHANNEL_UP
    snap = {}
    for s in specs:
        inter = world.inter[s['iid']]
        d = {}
        fut = inter.get('future')
        d['future_done'] = None if fut is None else fut.done()
        d['future_failed'] = bool(fut is not None and fut.done() and not fut.cancelled() and fut.exception() is not None)
        rf = inter.get('resp_future')
        d['resp_future_done'] = None if rf is None else rf.done()
        for key in ('subscriber', 'up_subscriber'):
            sub = inter.get(key)
            d[key] = None if sub is None else {'log': list(sub.log), 'cancelled': sub.cancelled,
                                               'subscribed': sub.subscription is not None}
        d['pubs'] = {}
        d['gens'] = {}
        for direction in (DIR_RESPONSE, DIR_CHANNEL_UP):
            pub = inter.get('publishers', {}).get(direction)
            if pub is not None:
                d['pubs'][direction] = {'subscribed': pub.subscriber is not None, 'finished': pub.finished,
                                        'cancel_calls': pub.cancel_calls}
            g = inter.get('gen_sources', {}).get(direction)
            if g is not None:
                d['gens'][direction] = dict(g)
        snap[s['iid']] = d
    obs['snap'] = snap
    obs['produced_at_settle'] = produced_at_settle
    for t in tasks:
        t.cancel()
    if extra is not None:
        extra.cancel()
    await p.close()
    return p, specs, obs


def reference(k):
    """Run without fault; returns (bytes per direction, frame boundaries per direction, instants)."""
    from .. import vloop
    p, specs, obs = vloop.run(_run(k, None))
    bounds = {'c': [0], 's': [0]}
    run_spans = {'c': [], 's': []}
    pos = {'c': 0, 's': 0}
    overhead = 3 if p.link.framing == 'bytes' else 0
    instants = set()
    for e in p.world.events:
        if e['t'] <= T_REF + 1e-9:
            instants.add(round(e['t'], 6))
        if e['kind'] == 'wire' and e['dir'] == 'send' and e['t'] <= T_REF:
            ep = e['ep']
            n = (e['f'].get('wire_len', 0) + overhead) if p.link.framing == 'bytes' else 1
            start = pos[ep]
            pos[ep] += n
            bounds[ep].append(pos[ep])
            if e['f'].get('follows'):
                run_spans[ep].append((start, pos[ep]))
    return obs['delivered'], bounds, sorted(instants), run_spans, p.link.framing


_REF = {}


def ref(k):
    if k not in _REF:
        _REF[k] = reference(k)
    return _REF[k]


def fault_points(k, tier):
    delivered, bounds, instants, run_spans, framing = ref(k)
    pts = []
    for side in 'cs':
        total = delivered[side]
        if framing == 'bytes':
            if tier == 'thorough':
                offs = range(0, total + 1)
            else:
                offs = set()
                for b in bounds[side]:
                    for d in (-1, 0, 1, 2, 4):
                        if 0 <= b + d <= total:
                            offs.add(b + d)
                offs.update(range(0, total + 1, 23))
                offs = sorted(offs)
            for o in offs:
                for mode in ('eof', 'error'):
                    pts.append(('bytes', side, o, mode))
        else:
            for o in range(0, total + 1):
                pts.append(('bytes', side, o, 'error'))
        nwrites = len(bounds[side])
        step = 1 if tier == 'thorough' else 3
        for n in range(1, nwrites * (3 if framing == 'bytes' else 1), step):
            pts.append(('write', side, n))
        ts = instants if tier == 'thorough' else instants[::3]
        for t in ts:
            for d in (-1e-7, 1e-7):
                if t + d >= 0:
                    pts.append(('close', side, t + d))
    # failing application code inside the clean-up, combined with a cut in the middle of the traffic
    mid = {s: delivered[s] // 2 for s in 'cs'}
    for what in ('pub-cancel', 'sub-on_error', 'on_close-c', 'on_close-s'):
        for side in 'cs':
            for mode in (('eof', 'error') if framing == 'bytes' else ('error',)):
                pts.append((('raise', what, 0), ('bytes', side, mid[side], mode)))
                pts.append((('raise', what, 0), ('close', side, T_REF / 2)))
    return pts


BATCH = 12


def cases(tier):
    out = []
    for k in range(N_SCENARIOS[tier]):
        n = len(fault_points(k, tier))
        for start in range(0, n, BATCH):
            out.append((k, start, min(BATCH, n - start)))
    return out


_CASES = {}


def plan(tier, seed):
    if tier not in _CASES:
        _CASES[tier] = cases(tier)
    return [('cut', len(_CASES[tier])), ('after-loss', 600 if tier == 'quick' else 8000)]


def judge(p, specs, obs, fault):
    from ..pair import trace_excerpt
    from ..apps import DIR_RESPONSE, DIR_CHANNEL_UP
    world = p.world
    wit = []
    st = {'pending_requests_judged': 0, 'producers_judged': 0, 'on_close_checked': 0}

    def bad(clause, **kw):
        d = dict(kw)
        if 'endpoint' in d:
            d['endpoint_blocked_in_handler'] = blocked.get(d['endpoint'], False)
        d['fault'] = list(fault) if not isinstance(fault[0], tuple) else [list(f) for f in fault]
        d['trace'] = trace_excerpt(world, 70, kw.get('iid'))[-70:]
        wit.append({'clause': clause, 'detail': d})

    raising = isinstance(fault[0], tuple)
    # an endpoint whose receiver is suspended inside an application handler (handlers are awaited inline by the
    # receive loop) when the settle ends
    blocked = {}
    for side in 'cs':
        entered = [e['iid'] for e in world.events[:obs['settled_at']] if e['kind'] == 'handler'
                   and e.get('who') == side + '-handler' and e.get('model') in ('rr', 'stream', 'channel', 'fnf', 'push')]
        returned = [e['iid'] for e in world.events[:obs['settled_at']] if e['kind'] == 'handler_return'
                    and e.get('who') == side + '-handler']
        blocked[side] = len(entered) > len(returned)
    closed_idx = {}
    for side in 'cs':
        idxs = [e['i'] for e in world.events if e['kind'] == 'on_close' and e.get('who') == side + '-handler']
        closed_idx[side] = idxs[0] if idxs else None
        st['on_close_checked'] += 1
        if len(idxs) != 1:
            bad('on_close-not-exactly-once', endpoint=side, calls=len(idxs))
    npending = 0
    for spec in specs:
        iid = spec['iid']
        inter = world.inter[iid]
        side = spec['side']
        other = 's' if side == 'c' else 'c'
        call = next((e['i'] for e in world.events if e['kind'] == 'call' and e.get('iid') == iid), None)
        if call is None:
            continue
        made_before_close = closed_idx[side] is None or call < closed_idx[side]
        model = spec['model']
        # requester side: nothing left hanging, nothing failed twice
        sn = obs['snap'][iid]
        if made_before_close:
            if model == 'rr':
                fut = inter.get('future')
                if fut is not None:
                    st['pending_requests_judged'] += 1
                    if not sn['future_done']:
                        npending += 1
                        bad('request-left-hanging', iid=iid, model=model, endpoint=side)
                    else:
                        log = getattr(fut, 'rv_log', [])
                        if any(was_done and what in ('set_result', 'set_exception') for what, was_done, _ in log):
                            bad('request-failed-twice', iid=iid, model=model, future_log=[list(x) for x in log])
                        if sn['future_failed']:
                            npending += 1
            elif model in ('stream', 'channel'):
                sub = inter.get('subscriber')
                ss = sn['subscriber']
                if sub is not None and ss['subscribed']:
                    st['pending_requests_judged'] += 1
                    terms = [x for x in ss['log'] if x in TERMINALS]
                    if not terms and not ss['cancelled']:
                        npending += 1
                        bad('request-left-hanging', iid=iid, model=model, endpoint=side, log=ss['log'][-4:])
                    if len([x for x in sub.log if x in TERMINALS]) > 1:
                        bad('request-failed-twice', iid=iid, model=model, log=sub.log[-6:])
                    if 'on_error' in terms:
                        npending += 1
        # responder side: producers cancelled
        handled = next((e['i'] for e in world.events if e['kind'] == 'handler' and e.get('iid') == iid), None)
        if handled is not None and (closed_idx[other] is None or handled < closed_idx[other]):
            if model == 'rr':
                if sn['resp_future_done'] is not None:
                    st['producers_judged'] += 1
                    if not sn['resp_future_done']:
                        bad('handler-future-not-cancelled', iid=iid, endpoint=other)
            elif model in ('stream', 'channel'):
                for direction, ep in ((DIR_RESPONSE, other), (DIR_CHANNEL_UP, side)):
                    pub = sn['pubs'].get(direction)
                    if pub is not None and pub['subscribed'] and not pub['finished']:
                        st['producers_judged'] += 1
                        if pub['cancel_calls'] == 0:
                            bad('publisher-not-cancelled', iid=iid, endpoint=ep, direction=direction)
                    g = sn['gens'].get(direction)
                    if g is not None and closed_idx.get(ep) is not None:
                        late = [e for e in world.events[closed_idx[ep]:] if e['kind'] == 'emit' and e.get('iid') == iid
                                and e.get('dir') == direction]
                        if late:
                            bad('generator-still-producing-after-the-connection-ended', iid=iid, endpoint=ep,
                                elements_produced_after_on_close=len(late))
                    if g is not None and g['next_calls'] > obs['produced_at_settle'].get((iid, direction), 0):
                        bad('generator-still-producing-after-the-connection-ended', iid=iid, endpoint=ep,
                            produced_at_settle=obs['produced_at_settle'].get((iid, direction)), produced_3s_later=g['next_calls'])
                    if g is not None and g['next_calls'] > 0 and not g['finally'] and g['cancel_cb'] == 0:
                        st['producers_judged'] += 1
                        bad('publisher-not-cancelled', iid=iid, endpoint=ep, direction=direction, source='generator')
                up = inter.get('up_subscriber')
                if model == 'channel' and up is not None and up.subscription is not None:
                    terms = [x for x in up.log if x in TERMINALS]
                    if len(terms) > 1:
                        bad('request-failed-twice', iid=iid, model='channel-responder-subscriber', log=up.log[-6:])
    # the endpoint stops sending, keepalives included
    late = [e for e in world.events[obs['settled_at']:] if e['kind'] == 'wire' and e['dir'] == 'send']
    if late:
        from ..minicodec import brief
        bad('sends-after-connection-ended', frames=[(e['ep'], brief(e['f'])) for e in late[:5]],
            all_senders_blocked_in_handler=all(blocked.get(e['ep'], False) for e in late))
    if obs['tasks'] is not None:
        for side in 'cs':
            alive = [n for n, v in obs['tasks'][side].items() if v]
            if alive:
                bad('tasks-still-running', endpoint=side, tasks=alive)
    return wit, st, npending


def run_case(gen, idx, rng, tier):
    assert_repo()
    from .. import vloop
    if gen == 'after-loss':
        return run_after_loss(idx, rng)
    if tier not in _CASES:
        _CASES[tier] = cases(tier)
    k, start, count = _CASES[tier][idx]
    pts = fault_points(k, tier)[start:start + count]
    delivered, bounds, instants, run_spans, framing = ref(k)
    st = {'fault_points_run': 0, 'pending_requests_judged': 0, 'producers_judged': 0, 'on_close_checked': 0,
          'cuts_inside_fragment_runs': 0}
    wits = []
    nt = 0
    sigs = []
    for fault in pts:
        p, specs, obs = vloop.run(_run(k, fault))
        if obs['tasks'] is None:
            return {'inconclusive': 'task attributes not found'}
        if not obs['fault_hit']:
            st['fault_points_not_reached'] = st.get('fault_points_not_reached', 0) + 1
            continue
        w, s, npending = judge(p, specs, obs, fault)
        st['fault_points_run'] += 1
        for kk, v in s.items():
            st[kk] += v
        if npending:
            nt += 1
        f0 = fault if not isinstance(fault[0], tuple) else fault[1]
        if f0[0] == 'bytes' and any(a < f0[2] < b for a, b in run_spans[f0[1]]):
            st['cuts_inside_fragment_runs'] += 1
        sigs.append(p.world.signature())
        for x in w:
            x['detail']['scenario'] = k
            x['detail']['framing'] = framing
            wits.append(x)
    seen = set()
    ws = []
    for w in wits:
        kk = (w['clause'], classify(w))
        if kk not in seen:
            seen.add(kk)
            ws.append(w)
    cfg, specs = scenario(k)
    return {'evals': len(pts), 'nt_count': nt, 'sigs': sigs, 'deciding': st, 'witnesses': ws,
            'counts': {'faults_' + (f[0] if not isinstance(f[0], tuple) else 'raise+' + f[1][0]): 1 for f in pts},
            'sample': {'scenario': k, 'framing': framing, 'bytes_per_direction': delivered,
                       'fault_points': [list(f) if not isinstance(f[0], tuple) else [list(x) for x in f] for f in pts[:4]],
                       'interactions': [{kk: v for kk, v in s.items() if kk in ('iid', 'side', 'model', 'req')}
                                        for s in specs]}}


def extra_coverage(results):
    return {}


BLOCKED_CLAUSES = ('request-left-hanging', 'publisher-not-cancelled', 'handler-future-not-cancelled',
                   'tasks-still-running', 'on_close-not-exactly-once', 'generator-still-producing-after-the-connection-ended')


def classify(w):
    d = w.get('detail', {})
    c = w.get('clause')
    if c in BLOCKED_CLAUSES and d.get('endpoint_blocked_in_handler') and d.get('calls', 0) == 0:
        return 'loss-unnoticed-while-handler-suspended'
    if c == 'sends-after-connection-ended' and d.get('all_senders_blocked_in_handler'):
        return 'loss-unnoticed-while-handler-suspended'
    return None


# ---- requests issued after the connection was lost, then close() -----------------------------------------------


def gen_after_loss(rng):
    return {'link': rng.choice(['bytes', 'messages']), 'end': rng.choice(['eof', 'error', 'peer-close', 'during-close']),
            'side': rng.choice('cs'), 'gap': rng.choice([0.0, 0.01, 0.5, 3.0]),
            'requests': [rng.choice(['rr', 'stream', 'channel', 'fnf']) for _ in range(rng.choice([1, 2, 3]))],
            'gap2': rng.choice([0.0, 0.01, 1.0]), 'before': rng.choice([[], ['rr'], ['stream']])}


async def _after_loss(rng, d):
    import asyncio
    from ..pair import Pair
    from .. import links
    from ..apps import make_payload, DIR_REQUEST, DIR_RESPONSE, RecSubscriber
    cfg = {'link': d['link'], 'frag_c': None, 'frag_s': None, 'knobs_c': links.Knobs(rng), 'knobs_s': links.Knobs(rng),
           'keepalive': 1.0, 'max_lifetime': 1000.0, 'horizon': 40.0}
    if d['end'] == 'eof' and d['link'] != 'bytes':
        d['end'] = 'error'
    p = Pair(rng, cfg)
    await p.start()
    world = p.world
    ep = p.ep(d['side'])
    other = 's' if d['side'] == 'c' else 'c'
    made = []
    iid = [0]

    def issue(kind):
        iid[0] += 1
        i = iid[0]
        world.specs[i] = {'iid': i, 'model': kind, 'side': d['side'],
                          'resp': {'size': (5, 0), 'outcome': 'never', 'elems': [(5, 0)] * 3, 'terminal': 'never',
                                   'pacing': ('timed', 0.05), 'source': 'rec', 'up_n0': 2}, 'up': None}
        world.inter[i] = {}
        pl = make_payload(i, DIR_REQUEST, 0, 16, 0)
        world.log('call', who=d['side'], iid=i, model=kind)
        try:
            if kind == 'rr':
                made.append((kind, i, ep.request_response(pl)))
            elif kind == 'fnf':
                made.append((kind, i, ep.fire_and_forget(pl)))
            else:
                sub = RecSubscriber(world, i, DIR_RESPONSE, 'sub%d' % i, policy=('refill', 2, 0), initial_granted=2)
                h = ep.request_stream(pl) if kind == 'stream' else ep.request_channel(pl)
                h.initial_request_n(2).subscribe(sub)
                made.append((kind, i, sub))
        except Exception as e:
            made.append((kind, i, ('raised', repr(e)[:80])))

    for kind in d['before']:
        issue(kind)
    await asyncio.sleep(0.2)
    nbefore = len(made)
    world.log('connection_ends', how=d['end'])
    if d['end'] == 'during-close':
        # close() on a live connection whose on_close suspends; another task of the application issues requests
        # while close() is still in progress
        async def slow_on_close(rs):
            await asyncio.sleep(0.3)

        p.handlers[d['side']].on_close_hook = slow_on_close
        world.log('explicit_close', who=d['side'])
        closing = asyncio.ensure_future(ep.close())
        await asyncio.sleep(0.1)
        for kind in d['requests']:
            issue(kind)
        await closing
    else:
        if d['end'] == 'peer-close':
            await p.ep(other).close()
        else:
            p.link.cut(d['end'])
        await asyncio.sleep(d['gap'])
        for kind in d['requests']:
            issue(kind)
        await asyncio.sleep(d['gap2'])
        world.log('explicit_close', who=d['side'])
        await ep.close()
    await asyncio.sleep(SETTLE)
    out = []
    for n, (kind, i, obj) in enumerate(made):
        if isinstance(obj, tuple):
            state = 'call-raised'
        elif kind in ('rr', 'fnf'):
            state = 'resolved' if obj.done() else 'hanging'
            if obj.done() and not obj.cancelled():
                obj.exception()
        else:
            state = 'resolved' if any(x in TERMINALS for x in obj.log) else 'hanging'
        out.append({'iid': i, 'model': kind, 'issued': 'before the loss' if n < nbefore else 'after the loss', 'state': state})
    await p.close()
    return p, out


def run_after_loss(idx, rng):
    from .. import vloop
    from ..runner import short_hash
    from ..pair import trace_excerpt
    d = gen_after_loss(rng)
    p, out = vloop.run(_after_loss(rng, d))
    st = {'fault_points_run': 0, 'pending_requests_judged': len(out), 'producers_judged': 0, 'on_close_checked': 0,
          'cuts_inside_fragment_runs': 0, 'requests_issued_after_loss_judged': sum(1 for o in out if o['issued'] == 'after the loss')}
    wit = []
    for o in out:
        if o['state'] == 'hanging' and o['model'] != 'fnf':
            wit.append({'clause': 'request-left-hanging-after-close',
                        'detail': dict(o, case=d, endpoint=d['side'], trace=trace_excerpt(p.world, 60)[-60:])})
            break
    return {'evals': 1, 'nt_keys': [short_hash(d)], 'deciding': st, 'witnesses': wit, 'sigs': [p.world.signature()],
            'counts': {'after_loss_runs': 1}, 'sample': d}
