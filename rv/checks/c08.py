"""C08 Frames emitted are legal RSocket for the emitter's role."""
from .. import assert_repo

ID = 'C08'
LEVEL = 'exploration'
RULE = ('hostile-legal: seeded E-mix cases over all five models in both roles with cancels at random instants '
        '(including inside on_subscribe and right after the call), application errors, never-answering responders, '
        'completion racing cancel, late request()/cancel() after termination, with and without fragmentation; every '
        'frame each real endpoint sends is judged online by a legality automaton fed with that endpoint\'s own ordered '
        'sends and receptions. script: bounded histories against the raw peer (see C07 engine). non-trivial = a run '
        'with a cancel or error racing other traffic of the same stream (>= 1 CANCEL or ERROR on the wire and >= 2 '
        'streams); distinct by case descriptor digest.')
ASSUMPTIONS = ['the automaton encodes exactly the clauses of the statement; what a responder still emits after it '
               'RECEIVED a CANCEL is not judged here (C09)',
               'stream id reuse is accepted once the previous stream with that id has terminated']
DECIDING_REQUIRED = ('sends_judged', 'cancel_frames_seen', 'error_frames_seen', 'streams_terminated')
BUDGET_S = {'quick': 100, 'thorough': 1800}


def plan(tier, seed):
    from . import c08_script
    return [('hostile-legal', 4000 if tier == 'quick' else 60000), ('lease', 1500 if tier == 'quick' else 20000),
            ('reconnect', 800 if tier == 'quick' else 12000)] + c08_script.plan(tier, seed)


def gen_case(rng, tier):
    from .. import mixgen
    cfg = mixgen.draw_config(rng)
    if rng.random() < 0.15:
        # a lease-honouring client: its requests wait for the server's (small, then unlimited) leases
        cfg['lease'] = mixgen.draw_leases(rng)
    cfg['instrument_queue'] = True
    specs = []
    iid = 1
    for side in 'cs':
        for _ in range(rng.choice([0, 1, 1, 2, 3])):
            s = mixgen.draw_spec(rng, iid, cfg, side=side, big=0.0, many=0.03,
                                 terminals=('complete', 'flag', 'complete'))
            specs.append(mixgen.make_hostile(rng, s))
            iid += 1
    if not specs:
        return gen_case(rng, tier)
    return cfg, specs


async def _run(rng, cfg, specs):
    from ..pair import Pair
    p = Pair(rng, cfg)
    p.driver.horizon = 1.0e5
    await p.start()
    await p.run_specs(specs)
    await p.close()
    return p


def judge(world):
    from ..protocol_model import judge_endpoint
    wit = []
    stats = {'sends_judged': 0, 'cancel_frames_seen': 0, 'error_frames_seen': 0, 'streams_terminated': 0}
    for ep, role in (('c', 'client'), ('s', 'server')):
        v, n, a = judge_endpoint(world.events, ep, role)
        stats['sends_judged'] += n
        stats['streams_terminated'] += sum(1 for s in a.streams.values() if s.dead)
        wit += v
    for e in world.events:
        if e['kind'] == 'queue':
            t = e['f'].get('type')
            if t == 'CANCEL':
                stats['cancel_frames_seen'] += 1
            elif t == 'ERROR':
                stats['error_frames_seen'] += 1
    return wit, stats


def run_case(gen, idx, rng, tier):
    assert_repo()
    if gen == 'lease':
        return run_lease(idx, rng, tier)
    if gen == 'reconnect':
        return run_reconnect(idx, rng, tier)
    if gen != 'hostile-legal':
        from . import c08_script
        return c08_script.run_case(gen, idx, rng, tier)
    from .. import vloop, mixgen
    from ..runner import short_hash
    from ..pair import trace_excerpt
    cfg, specs = gen_case(rng, tier)
    p = vloop.run(_run(rng, cfg, specs))
    world = p.world
    wit, st = judge(world)
    desc = {'config': mixgen.describe_cfg(cfg), 'interactions': specs}
    seen = set()
    ws = []
    for w in wit:
        k = (w['clause'], classify(w))
        if k in seen:
            continue
        seen.add(k)
        at = w['detail'].get('at_event', 0)
        lo = max(0, at - 40)
        w['detail']['trace'] = [x for x in trace_excerpt(type('W', (), {'events': world.events[lo:at + 3]})(), 60)]
        w['detail']['config'] = desc['config']
        w['detail']['interactions'] = specs
        ws.append(w)
    nstreams = len({e['f'].get('sid') for e in world.events if e['kind'] == 'wire' and e['f'].get('sid')})
    nontrivial = (st['cancel_frames_seen'] + st['error_frames_seen']) >= 1 and nstreams >= 2
    ev = {'wire_frames': sum(1 for e in world.events if e['kind'] == 'wire')}
    return {'evals': 1, 'nt_keys': [short_hash(desc)] if nontrivial else [], 'sigs': [world.signature()],
            'deciding': st, 'counts': ev, 'witnesses': ws, 'sample': desc}


def run_lease(idx, rng, tier):
    """A lease-honouring client (requests retained until a LEASE arrives) whose application grants credit or
    cancels right after subscribing; the automaton judges the client's sends."""
    from .. import vloop
    from ..runner import short_hash
    from ..protocol_model import judge_endpoint
    from ..pair import trace_excerpt
    from . import c14
    desc = c14.gen_requester(rng)
    desc['role'] = 'c'
    for ev in desc['timeline']:
        if ev['kind'] == 'req' and ev['model'] in ('stream', 'channel'):
            ev['post'] = rng.choice([None, 'request', 'cancel'])
    world, t0 = vloop.run(c14._requester(rng, desc))
    v, n, a = judge_endpoint(world.events, 'c', 'client')
    st = {'sends_judged': n, 'cancel_frames_seen': 0, 'error_frames_seen': 0,
          'streams_terminated': sum(1 for s in a.streams.values() if s.dead)}
    for e in world.events:
        if e['kind'] == 'queue' and e['f'].get('type') == 'CANCEL':
            st['cancel_frames_seen'] += 1
    seen = set()
    ws = []
    for w in v:
        k = (w['clause'], classify(w))
        if k not in seen:
            seen.add(k)
            w['detail']['case'] = desc
            w['detail']['lease_honouring_client'] = True
            at = w['detail'].get('at_event', 0)
            w['detail']['trace'] = trace_excerpt(type('W', (), {'events': world.events[max(0, at - 30):at + 3]})(), 40)
            ws.append(w)
    nt = any(ev.get('post') for ev in desc['timeline'])
    return {'evals': 1, 'nt_keys': [short_hash(desc)] if nt else [], 'sigs': [world.signature()], 'deciding': st,
            'witnesses': ws, 'counts': {'lease_runs': 1}, 'sample': desc}


REQUEST_TYPES = ('REQUEST_RESPONSE', 'REQUEST_STREAM', 'REQUEST_CHANNEL', 'REQUEST_FNF')


def run_reconnect(idx, rng, tier):
    """A reconnecting client (the C17 workload: connection endings of every kind with requests, streams and channels
    pending, publishers that keep producing): on EVERY connection what the client sends must be legal for that
    connection - SETUP first and once, a stream begins with a request frame on this connection, odd ids - so
    nothing of an earlier connection (queued frames, live publishers, credit) may surface on a later one."""
    from .. import vloop
    from ..runner import short_hash
    from . import c17
    desc = c17.gen_case(rng)
    world, rounds, conns = vloop.run(c17._run(rng, desc))
    st = {'sends_judged': 0, 'cancel_frames_seen': 0, 'error_frames_seen': 0, 'streams_terminated': 0,
          'connections_judged': 0, 'later_connections_with_stream_frames': 0}
    wit = []
    by_conn = {}
    for e in world.events:
        if e['kind'] == 'wire' and 'conn' in e:
            by_conn.setdefault(e['conn'], []).append(e)
    for ci, evs in sorted(by_conn.items()):
        opened = set()
        sent = [e for e in evs if e['ep'] == 'c' and e['dir'] == 'send']
        if not sent:
            continue
        st['connections_judged'] += 1
        setups = 0
        stream_frames = 0

        def bad(clause, e, **kw):
            wit.append({'clause': clause, 'detail': dict(kw, connection=ci, frame=_brief_frame(e['f']), at_event=e['i'],
                                                         wire_of_connection=[('%s %s' % (x['ep'], x['dir']), _brief_frame(x['f']))
                                                                             for x in evs[:40]], case=desc)})
        for n, e in enumerate(evs):
            f = e['f']
            t = f.get('type')
            sid = f.get('sid', 0)
            if e['ep'] == 's' and e['dir'] == 'send' and t in REQUEST_TYPES:
                opened.add(sid)
            if e['ep'] != 'c' or e['dir'] != 'send':
                continue
            st['sends_judged'] += 1
            if t == 'CANCEL':
                st['cancel_frames_seen'] += 1
            if t == 'ERROR':
                st['error_frames_seen'] += 1
            if e is sent[0] and t != 'SETUP':
                bad('first-frame-not-setup', e)
            if t == 'SETUP':
                setups += 1
                if setups > 1:
                    bad('second-setup', e)
            if not sid:
                continue
            stream_frames += 1
            if t in REQUEST_TYPES:
                if sid % 2 != 1:
                    bad('stream-id-parity', e)
                opened.add(sid)
            elif sid not in opened:
                bad('frame-on-stream-never-opened-on-this-connection', e)
        if ci > 0 and stream_frames:
            st['later_connections_with_stream_frames'] += 1
    seen = set()
    ws = []
    for w in wit:
        if w['clause'] not in seen:
            seen.add(w['clause'])
            ws.append(w)
    nt = st['connections_judged'] >= 2
    return {'evals': 1, 'nt_keys': [short_hash(desc)] if nt else [], 'sigs': [world.signature()], 'deciding': st,
            'witnesses': ws, 'counts': {'reconnect_runs': 1}, 'sample': desc}


def _brief_frame(f):
    from .. import minicodec
    try:
        return minicodec.brief(f)
    except Exception:
        return str(f)[:80]


def classify(w):
    d = w.get('detail', {})
    if w.get('clause') == 'frame-after-stream-terminated' and d.get('stream_kind') == 'channel':
        # the library closes only one direction of a channel on ERROR / requester CANCEL: the direction that
        # survives keeps emitting ITS frame types - the endpoint's own publisher (PAYLOAD, ERROR) after its own
        # CANCEL or a received ERROR, the endpoint's own subscriber (REQUEST_N, CANCEL) after its own ERROR
        frame = str(d.get('frame', '')).split('(')[0]
        surviving = {'own CANCEL sent': ('PAYLOAD', 'ERROR'), 'ERROR received': ('PAYLOAD', 'ERROR'),
                     'own ERROR sent': ('REQUEST_N', 'CANCEL')}.get(d.get('terminated_by'), ())
        if frame in surviving:
            return 'channel-direction-survives-termination'
    return None
