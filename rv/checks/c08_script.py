"""E-script generators for C08: the same bounded histories as C07, judged by the legality automaton."""


def plan(tier, seed):
    from . import c07
    return [('script', len(c07.script_cases(tier)))]


def run_case(gen, idx, rng, tier):
    from .. import script
    from ..protocol_model import judge_endpoint
    from ..pair import trace_excerpt
    from . import c07, c08
    m, r, e, sp, start, count = c07.script_cases(tier)[idx]
    hs = c07.histories(m, r, c07.DEPTH[tier][m])[start:start + count]
    st = {'sends_judged': 0, 'cancel_frames_seen': 0, 'error_frames_seen': 0, 'streams_terminated': 0}
    wits = []
    nt = 0
    sigs = []
    for j, h in enumerate(hs):
        link = 'bytes' if (start + j) % 2 == 0 else 'messages'
        res = script.execute(m, r, e, h, sp, rng, link_kind=link)
        v, n, a = judge_endpoint(res.world.events, e, 'client' if e == 'c' else 'server')
        st['sends_judged'] += n
        st['streams_terminated'] += sum(1 for s in a.streams.values() if s.dead)
        for ev in res.world.events:
            if ev['kind'] == 'queue':
                t = ev['f'].get('type')
                if t == 'CANCEL':
                    st['cancel_frames_seen'] += 1
                elif t == 'ERROR':
                    st['error_frames_seen'] += 1
        if c07._nontrivial_history(h):
            nt += 1
        sigs.append(res.world.signature())
        for w in v:
            w['detail'].update(model=m, role_of_real_endpoint=r, spacing=sp, history=list(h), framing=link,
                               skipped_steps=res.skipped, trace=trace_excerpt(res.world, 70))
            wits.append(w)
    seen = set()
    ws = []
    for w in wits:
        k = (w['clause'], c08.classify(w))
        if k not in seen:
            seen.add(k)
            ws.append(w)
    return {'evals': len(hs), 'nt_count': nt, 'sigs': sigs, 'deciding': st, 'witnesses': ws,
            'counts': {'histories_%s_%s' % (m, r): len(hs)},
            'sample': {'model': m, 'role_of_real_endpoint': r, 'endpoint': e, 'spacing': sp,
                       'first_history': list(hs[0]), 'last_history': list(hs[-1]), 'histories': len(hs)}}
