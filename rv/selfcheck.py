"""setup_cmd: nothing to build (pure Python); verify the harness prerequisites."""
import sys

from . import assert_repo, REPO


def main():
    assert_repo()
    from . import vloop
    ok = vloop.clock_selftest()
    print('rv selfcheck: repo=%s python=%s clock_redirection=%s' % (REPO, sys.version.split()[0], ok))
    return 0 if ok else 1


if __name__ == '__main__':
    sys.exit(main())
