"""Bridging between the library's Frame objects and the harness' frame dicts
(the dict form of rv.minicodec)."""
import rsocket.frame as F
from rsocket.error_codes import ErrorCode

CLS = {
    'SETUP': F.SetupFrame, 'LEASE': F.LeaseFrame, 'KEEPALIVE': F.KeepAliveFrame,
    'REQUEST_RESPONSE': F.RequestResponseFrame, 'REQUEST_FNF': F.RequestFireAndForgetFrame,
    'REQUEST_STREAM': F.RequestStreamFrame, 'REQUEST_CHANNEL': F.RequestChannelFrame,
    'REQUEST_N': F.RequestNFrame, 'CANCEL': F.CancelFrame, 'PAYLOAD': F.PayloadFrame,
    'ERROR': F.ErrorFrame, 'METADATA_PUSH': F.MetadataPushFrame, 'RESUME': F.ResumeFrame,
    'RESUME_OK': F.ResumeOKFrame,
}
NAME = {v: k for k, v in CLS.items()}

HAS_METADATA = ('SETUP', 'LEASE', 'REQUEST_RESPONSE', 'REQUEST_FNF', 'REQUEST_STREAM', 'REQUEST_CHANNEL',
                'PAYLOAD', 'METADATA_PUSH')
HAS_DATA = ('SETUP', 'KEEPALIVE', 'REQUEST_RESPONSE', 'REQUEST_FNF', 'REQUEST_STREAM', 'REQUEST_CHANNEL',
            'PAYLOAD', 'ERROR')


def build(d):
    """Construct a library frame from a dict (field values as an application or the
    library itself would set them)."""
    t = d['type']
    f = CLS[t]()
    f.stream_id = d.get('sid', 0)
    f.flags_ignore = bool(d.get('ignore', False))
    if t in HAS_METADATA:
        f.metadata = d.get('metadata') if d.get('metadata') is not None else b''
    if t in HAS_DATA:
        f.data = d.get('data') if d.get('data') is not None else b''
    if t == 'SETUP':
        f.major_version = d.get('major', 1)
        f.minor_version = d.get('minor', 0)
        f.keep_alive_milliseconds = d['keepalive_ms']
        f.max_lifetime_milliseconds = d['lifetime_ms']
        f.flags_lease = bool(d.get('lease'))
        f.flags_resume = bool(d.get('resume'))
        if f.flags_resume:
            f.resume_identification_token = d.get('token', b'')
            f.token_length = len(f.resume_identification_token)
        f.metadata_encoding = d.get('metadata_mime', b'')
        f.data_encoding = d.get('data_mime', b'')
    elif t == 'LEASE':
        f.time_to_live = d['ttl_ms']
        f.number_of_requests = d['requests']
    elif t == 'KEEPALIVE':
        f.flags_respond = bool(d.get('respond'))
        f.last_received_position = d.get('position', 0)
    elif t in ('REQUEST_RESPONSE', 'REQUEST_FNF'):
        f.flags_follows = bool(d.get('follows'))
    elif t == 'REQUEST_STREAM':
        f.flags_follows = bool(d.get('follows'))
        f.initial_request_n = d['n']
    elif t == 'REQUEST_CHANNEL':
        f.flags_follows = bool(d.get('follows'))
        f.flags_complete = bool(d.get('complete'))
        f.initial_request_n = d['n']
    elif t == 'REQUEST_N':
        f.request_n = d['n']
    elif t == 'PAYLOAD':
        f.flags_follows = bool(d.get('follows'))
        f.flags_complete = bool(d.get('complete'))
        f.flags_next = bool(d.get('next'))
    elif t == 'ERROR':
        f.error_code = ErrorCode(d['code'])
    elif t == 'RESUME':
        f.major_version = d.get('major', 1)
        f.minor_version = d.get('minor', 0)
        f.resume_identification_token = d.get('token', b'')
        f.token_length = len(f.resume_identification_token)
        f.last_server_position = d.get('last_server_position', 0)
        f.first_client_position = d.get('first_client_position', 0)
    elif t == 'RESUME_OK':
        f.last_received_client_position = d.get('position', 0)
    return f


def _b(x):
    return bytes(x) if x else b''


def to_dict(f):
    """Field view of a library frame, normalised (empty == absent for byte strings)."""
    t = NAME[type(f)]
    d = {'type': t, 'sid': f.stream_id, 'ignore': bool(f.flags_ignore)}
    if t in HAS_METADATA:
        d['metadata'] = _b(f.metadata)
    if t in HAS_DATA:
        d['data'] = _b(f.data)
    if t == 'SETUP':
        d.update(major=f.major_version, minor=f.minor_version, keepalive_ms=f.keep_alive_milliseconds,
                 lifetime_ms=f.max_lifetime_milliseconds, lease=bool(f.flags_lease), resume=bool(f.flags_resume),
                 metadata_mime=_b(f.metadata_encoding), data_mime=_b(f.data_encoding))
        if f.flags_resume:
            d['token'] = _b(f.resume_identification_token)
    elif t == 'LEASE':
        d.update(ttl_ms=f.time_to_live, requests=f.number_of_requests)
    elif t == 'KEEPALIVE':
        d.update(respond=bool(f.flags_respond), position=f.last_received_position)
    elif t in ('REQUEST_RESPONSE', 'REQUEST_FNF'):
        d.update(follows=bool(f.flags_follows))
    elif t == 'REQUEST_STREAM':
        d.update(follows=bool(f.flags_follows), n=f.initial_request_n)
    elif t == 'REQUEST_CHANNEL':
        d.update(follows=bool(f.flags_follows), complete=bool(f.flags_complete), n=f.initial_request_n)
    elif t == 'REQUEST_N':
        d.update(n=f.request_n)
    elif t == 'PAYLOAD':
        d.update(follows=bool(f.flags_follows), complete=bool(f.flags_complete), next=bool(f.flags_next))
    elif t == 'ERROR':
        d.update(code=int(f.error_code))
    elif t == 'RESUME':
        d.update(major=f.major_version, minor=f.minor_version, token=_b(f.resume_identification_token),
                 last_server_position=f.last_server_position, first_client_position=f.first_client_position)
    elif t == 'RESUME_OK':
        d.update(position=f.last_received_client_position)
    return d


def norm(d):
    """Normal form of a source dict for comparison with to_dict(decode(encode(d)))."""
    t = d['type']
    o = {'type': t, 'sid': d.get('sid', 0), 'ignore': bool(d.get('ignore', False))}
    if t in HAS_METADATA:
        o['metadata'] = _b(d.get('metadata'))
    if t in HAS_DATA:
        o['data'] = _b(d.get('data'))
    if t == 'SETUP':
        o.update(major=d.get('major', 1), minor=d.get('minor', 0), keepalive_ms=d['keepalive_ms'],
                 lifetime_ms=d['lifetime_ms'], lease=bool(d.get('lease')), resume=bool(d.get('resume')),
                 metadata_mime=_b(d.get('metadata_mime')), data_mime=_b(d.get('data_mime')))
        if d.get('resume'):
            o['token'] = _b(d.get('token'))
    elif t == 'LEASE':
        o.update(ttl_ms=d['ttl_ms'], requests=d['requests'])
    elif t == 'KEEPALIVE':
        o.update(respond=bool(d.get('respond')), position=d.get('position', 0))
    elif t in ('REQUEST_RESPONSE', 'REQUEST_FNF'):
        o.update(follows=bool(d.get('follows')))
    elif t == 'REQUEST_STREAM':
        o.update(follows=bool(d.get('follows')), n=d['n'])
    elif t == 'REQUEST_CHANNEL':
        o.update(follows=bool(d.get('follows')), complete=bool(d.get('complete')), n=d['n'])
    elif t == 'REQUEST_N':
        o.update(n=d['n'])
    elif t == 'PAYLOAD':
        has_content = bool(o['metadata']) or bool(o['data'])
        o.update(follows=bool(d.get('follows')), complete=bool(d.get('complete')),
                 next=bool(d.get('next')) or has_content)
    elif t == 'ERROR':
        o.update(code=int(d['code']))
    elif t == 'RESUME':
        o.update(major=d.get('major', 1), minor=d.get('minor', 0), token=_b(d.get('token')),
                 last_server_position=d.get('last_server_position', 0),
                 first_client_position=d.get('first_client_position', 0))
    elif t == 'RESUME_OK':
        o.update(position=d.get('position', 0))
    return o


def snapshot(frame):
    """Decode what a library frame object would put on the wire with the independent
    codec; used by link taps.  Returns a minicodec dict (or a marker for non-frames)."""
    from . import minicodec
    if isinstance(frame, F.InvalidFrame):
        return {'type': 'INVALID', 'sid': -1}
    try:
        raw = frame.serialize()
    except Exception as e:  # a frame the library cannot serialise never reaches the wire
        return {'type': 'UNSERIALIZABLE', 'sid': getattr(frame, 'stream_id', -1), 'error': repr(e)}
    try:
        d = minicodec.decode(raw)
    except Exception as e:
        return {'type': 'UNDECODABLE', 'sid': getattr(frame, 'stream_id', -1), 'error': repr(e), 'raw': raw}
    d['wire_len'] = len(raw)
    return d
