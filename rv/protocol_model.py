"""Protocol models written from the property statements (not from the implementation)."""

REQ = ('REQUEST_RESPONSE', 'REQUEST_FNF', 'REQUEST_STREAM', 'REQUEST_CHANNEL')
KIND = {'REQUEST_RESPONSE': 'rr', 'REQUEST_FNF': 'fnf', 'REQUEST_STREAM': 'stream', 'REQUEST_CHANNEL': 'channel'}
CONN_ONLY = ('SETUP', 'KEEPALIVE', 'LEASE', 'METADATA_PUSH', 'RESUME', 'RESUME_OK')
STREAM_ONLY = REQ + ('REQUEST_N', 'CANCEL', 'PAYLOAD')

ALLOWED = {
    ('rr', 'requester'): ('CANCEL',),
    ('rr', 'responder'): ('PAYLOAD', 'ERROR'),
    ('fnf', 'requester'): (),
    ('fnf', 'responder'): (),
    ('stream', 'requester'): ('REQUEST_N', 'CANCEL'),
    ('stream', 'responder'): ('PAYLOAD', 'ERROR'),
    ('channel', 'requester'): ('PAYLOAD', 'REQUEST_N', 'CANCEL', 'ERROR'),
    ('channel', 'responder'): ('PAYLOAD', 'REQUEST_N', 'CANCEL', 'ERROR'),
}


class Stream:
    __slots__ = ('sid', 'kind', 'role', 'own_open', 'peer_open', 'dead', 'why_dead', 'req_run', 'own_run', 'peer_run',
                 'history')

    def __init__(self, sid, kind, role):
        self.sid = sid
        self.kind = kind
        self.role = role
        # direction = flow of PAYLOAD elements.  rr/stream: only responder->requester carries elements.
        self.own_open = True
        self.peer_open = True
        self.dead = False
        self.why_dead = None
        self.req_run = False      # inside the fragment run of the request frame
        self.own_run = False
        self.peer_run = False
        self.history = []


class LegalityAutomaton:
    """Judges every frame an endpoint SENDS against what that endpoint itself sent and received before it
    (clauses of C08).  role: 'client' or 'server'."""

    def __init__(self, role):
        self.role = role
        self.parity = 1 if role == 'client' else 0
        self.sent_any = False
        self.setups = 0
        self.streams = {}
        self.violations = []

    def _bad(self, clause, f, s=None, **kw):
        from .minicodec import brief
        d = {'frame': brief(f), 'role': self.role}
        if s is not None:
            d.update(stream_kind=s.kind, stream_role=s.role, own_direction_open=s.own_open,
                     peer_direction_open=s.peer_open, terminated_by=s.why_dead, stream_history=s.history[-10:])
        d.update(kw)
        v = {'clause': clause, 'detail': d}
        self.violations.append(v)
        return v

    # ------------------------------------------------------------------
    def on_recv(self, f):
        from .minicodec import brief
        t = f.get('type')
        sid = f.get('sid', 0)
        if not sid or t in ('INVALID', 'UNDECODABLE'):
            return
        s = self.streams.get(sid)
        if t in REQ:
            if s is None or s.dead:
                s = self.streams[sid] = Stream(sid, KIND[t], 'responder')
                s.history.append('recv ' + brief(f))
                s.peer_run = bool(f.get('follows'))
                if s.kind == 'channel' and f.get('complete') and not f.get('follows'):
                    s.peer_open = False
                if s.kind in ('rr', 'stream', 'fnf'):
                    s.peer_open = False        # the requester sends no elements
                if s.kind == 'fnf' and not f.get('follows'):
                    self._kill(s, 'fnf received')
                return
            s.history.append('recv ' + brief(f))
            return
        if s is None:
            return
        s.history.append('recv ' + brief(f))
        if s.dead:
            return
        if t == 'PAYLOAD':
            cont = s.peer_run
            s.peer_run = bool(f.get('follows'))
            if f.get('follows'):
                return
            if s.role == 'responder' and s.kind == 'fnf':
                self._kill(s, 'fnf received')
                return
            if s.role == 'responder' and s.kind in ('rr', 'stream'):
                return     # last fragment of the request
            if s.role == 'requester' and s.kind == 'rr':
                s.peer_open = False
                self._kill(s, 'response received')
                return
            if f.get('complete'):
                s.peer_open = False
                if s.role == 'requester' and s.kind == 'stream':
                    self._kill(s, 'completion received')
                elif not s.own_open:
                    self._kill(s, 'both directions completed')
        elif t == 'ERROR':
            self._kill(s, 'ERROR received')
        elif t == 'CANCEL':
            if s.role == 'responder':
                # requester's CANCEL: the interaction is over for the requester; what the responder still emits
                # afterwards is C09's business, so nothing is recorded here that would make C08 judge it
                s.history.append('(peer cancelled)')

    def _kill(self, s, why):
        s.dead = True
        s.why_dead = why

    # ------------------------------------------------------------------
    def on_send(self, f):
        """Returns a violation dict or None."""
        from .minicodec import brief
        t = f.get('type')
        sid = f.get('sid', 0)
        first = not self.sent_any
        self.sent_any = True
        if t in ('UNSERIALIZABLE', 'UNDECODABLE'):
            return self._bad('frame-not-decodable', f)
        if self.role == 'client':
            if first and t != 'SETUP':
                return self._bad('first-frame-not-setup', f)
            if t == 'SETUP':
                self.setups += 1
                if self.setups > 1:
                    return self._bad('second-setup', f)
        elif t == 'SETUP':
            return self._bad('server-sent-setup', f)
        if t in CONN_ONLY and sid != 0:
            return self._bad('connection-frame-on-stream', f)
        if t in STREAM_ONLY and sid == 0:
            return self._bad('stream-frame-on-stream-0', f)
        if sid == 0:
            return None
        s = self.streams.get(sid)
        if t in REQ:
            if s is not None and not s.dead:
                if s.req_run:
                    return self._bad('request-frame-inside-own-request-run', f, s)
                return self._bad('request-on-open-stream-id', f, s)
            if (sid & 1) != self.parity:
                return self._bad('stream-id-wrong-parity', f)
            s = self.streams[sid] = Stream(sid, KIND[t], 'requester')
            s.history.append('send ' + brief(f))
            s.req_run = bool(f.get('follows'))
            if t in ('REQUEST_STREAM', 'REQUEST_CHANNEL'):
                n = f.get('n', 0)
                if n <= 0 or n > 0x7FFFFFFF:
                    return self._bad('initial-request-n-not-positive', f, s)
            if s.kind in ('rr', 'stream', 'fnf'):
                s.own_open = False
            if s.kind == 'channel' and f.get('complete') and not f.get('follows'):
                s.own_open = False
            if s.kind == 'fnf' and not s.req_run:
                self._kill(s, 'fnf sent')
            return None
        if s is None:
            return self._bad('stream-does-not-begin-with-request', f)
        s.history.append('send ' + brief(f))
        if s.role == 'requester' and s.req_run:
            # fragments of the request frame itself
            if t != 'PAYLOAD':
                return self._bad('frame-inside-own-request-run', f, s)
            s.req_run = bool(f.get('follows'))
            if not s.req_run:
                if s.kind == 'channel' and f.get('complete'):
                    s.own_open = False
                if s.kind == 'fnf':
                    self._kill(s, 'fnf sent')
            return None
        if s.dead:
            return self._bad('frame-after-stream-terminated', f, s)
        if t not in ALLOWED[(s.kind, s.role)]:
            return self._bad('frame-type-not-allowed-for-role', f, s)
        if t == 'PAYLOAD':
            cont = s.own_run
            s.own_run = bool(f.get('follows'))
            if not s.own_open and not cont:
                return self._bad('payload-after-own-completion', f, s)
            if f.get('complete') and not f.get('follows'):
                s.own_open = False
                if s.role == 'responder' and s.kind in ('rr', 'stream'):
                    self._kill(s, 'own completion sent')
                elif not s.peer_open:
                    self._kill(s, 'both directions completed')
            elif s.role == 'responder' and s.kind == 'rr' and not f.get('follows'):
                s.own_open = False
                self._kill(s, 'own response sent')
        elif t == 'ERROR':
            self._kill(s, 'own ERROR sent')
        elif t == 'CANCEL':
            if s.role == 'requester':
                self._kill(s, 'own CANCEL sent')
        return None


class WireSendOrder:
    """The clauses of C08 that depend only on the order of an endpoint's own frames ON THE WIRE (i.e. after
    fragmentation, which happens behind the queue): once a frame carrying COMPLETE - or the single response of a
    request-response - has left on a stream, no further PAYLOAD leaves on it; once an ERROR or a requester's
    CANCEL has left on a request-response / request-stream stream, nothing leaves on it.  Channels after
    ERROR/CANCEL are left to the queue-time automaton (which knows the receptions)."""

    def __init__(self, role):
        self.role = role
        self.parity = 1 if role == 'client' else 0
        self.st = {}

    def on_recv(self, f):
        t, sid = f.get('type'), f.get('sid', 0)
        if t in REQ and sid and (sid & 1) != self.parity:
            self.st[sid] = {'kind': KIND[t], 'role': 'responder', 'done': None, 'term': None, 'hist': []}

    def on_send(self, f):
        from .minicodec import brief
        t, sid = f.get('type'), f.get('sid', 0)
        if not sid:
            return None
        if t in REQ:
            self.st[sid] = {'kind': KIND[t], 'role': 'requester', 'done': brief(f) if f.get('complete') else None,
                            'term': None, 'hist': ['send ' + brief(f)]}
            return None
        s = self.st.get(sid)
        if s is None:
            return None
        s['hist'].append('send ' + brief(f))
        v = None
        if s['term'] and s['kind'] != 'channel':
            v = {'clause': 'frame-after-stream-terminated',
                 'detail': {'frame': brief(f), 'role': self.role, 'judged_at': 'wire order', 'stream_kind': s['kind'],
                            'stream_role': s['role'], 'terminated_by': 'own %s on the wire' % s['term'],
                            'stream_history': s['hist'][-10:]}}
        elif t == 'PAYLOAD' and s['done']:
            v = {'clause': 'payload-after-own-completion',
                 'detail': {'frame': brief(f), 'role': self.role, 'judged_at': 'wire order', 'stream_kind': s['kind'],
                            'stream_role': s['role'], 'completed_by': s['done'], 'stream_history': s['hist'][-10:]}}
        if t == 'PAYLOAD':
            if f.get('complete') or (s['role'] == 'responder' and s['kind'] == 'rr' and not f.get('follows')):
                s['done'] = s['done'] or brief(f)
        elif t == 'ERROR':
            s['term'] = 'ERROR'
        elif t == 'CANCEL' and s['role'] == 'requester':
            s['term'] = 'CANCEL'
        return v


def judge_endpoint(events, ep, role):
    """events: world.events.  Each frame the endpoint decides to send is judged at the moment it enters the
    endpoint's send path ('queue' events, whole frames) against what the endpoint had sent and received by
    then - a frame waiting in the send queue cannot be recalled, exactly like bytes in a socket buffer.  The
    connection-level clauses (first frame on the wire is SETUP, sent once) are judged on the wire order.
    Falls back to wire order when the run has no queue events."""
    a = LegalityAutomaton(role)
    out = []
    n_send = 0
    has_queue = any(e['kind'] == 'queue' and e['ep'] == ep for e in events)
    first_wire = True
    setups = 0
    ws = WireSendOrder(role)
    for e in events:
        if e.get('ep') != ep:
            continue
        k = e['kind']
        if k == 'wire' and e['dir'] == 'recv':
            a.on_recv(e['f'])
            ws.on_recv(e['f'])
            continue
        if k == 'wire' and has_queue:
            wv = ws.on_send(e['f'])
            if wv is not None:
                wv['detail']['endpoint'] = ep
                wv['detail']['at_event'] = e['i']
                out.append(wv)
        if k == 'wire' and has_queue:
            # wire-order clauses only
            f = e['f']
            v = None
            if role == 'client':
                if first_wire and f.get('type') != 'SETUP':
                    v = a._bad('first-frame-not-setup', f)
                if f.get('type') == 'SETUP':
                    setups += 1
                    if setups > 1:
                        v = a._bad('second-setup', f)
            first_wire = False
            if f.get('type') in ('UNSERIALIZABLE', 'UNDECODABLE'):
                v = a._bad('frame-not-decodable', f)
            if v is not None:
                v['detail']['endpoint'] = ep
                v['detail']['at_event'] = e['i']
                out.append(v)
            continue
        if (k == 'queue' and has_queue) or (k == 'wire' and not has_queue):
            n_send += 1
            if has_queue:
                a.sent_any = True          # SETUP-first is judged on the wire
                if e['f'].get('type') == 'SETUP' and role == 'client':
                    a.setups = 0
            v = a.on_send(e['f'])
            if v is not None:
                v['detail']['endpoint'] = ep
                v['detail']['at_event'] = e['i']
                out.append(v)
    return out, n_send, a
