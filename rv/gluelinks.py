"""Links that run the repository's *other* websocket transports - the glue between an RSocket endpoint and
aiohttp, quart, asyncwebsockets, django-channels - over scripted socket objects, so that their own lines (message
type filter, parser call, send call, outgoing queue, producer task) are executed by the workloads and not only
the two lines they share with AbstractMessagingTransport (MsgLink).

  kind        client transport                        server transport
  aiohttp     TransportAioHttpClient(websocket=fake)  TransportAioHttpWebsocket(fake) + handle_incoming_ws_messages()
  quart       TransportAsyncWebsocketsClient(fake)    TransportQuartWebsocket() + handle_incoming_ws_messages(); the
                                                      module-global `websocket` of quart is a context-local proxy
  channels    ChannelsTransport(fake consumer)        AsyncRSocketConsumer (real class, base_send scripted):
                                                      receive(bytes_data=/text_data=) + ChannelsTransport(consumer)

A message in flight is `bytes` (a binary websocket message) or ('text', str) / ('ping', bytes) (other message kinds a
peer may send; only the raw peer produces those). The fakes present each message the way the real library does:
aiohttp WSMessage objects, wsproto BytesMessage / TextMessage events, bytes-or-str from quart's receive(),
bytes_data= / text_data= keyword arguments for channels.

Only fault-free operation and hostile *messages* are modelled; how each third-party library reports a lost
connection is not (DESIGN section 7), so cuts are not offered on these links.
"""
import asyncio
import contextvars

from .links import Tap, Knobs, _wait, tapped

KINDS = ('aiohttp', 'quart', 'channels')

_quart_current = contextvars.ContextVar('rv_quart_websocket', default=None)


class _QuartProxy:
    """Stands in for `quart.websocket` (a context-local proxy in quart as well)."""

    async def receive(self):
        return await _quart_current.get().receive()

    async def send(self, data):
        return await _quart_current.get().send(data)


def _install_quart_proxy():
    import rsocket.transports.quart_websocket as qw
    if not isinstance(qw.websocket, _QuartProxy):
        qw.websocket = _QuartProxy()
    return qw


class _End:
    """One scripted socket. `present` turns a message in flight into what the library hands to the glue."""

    def __init__(self, link, side, present):
        self.link = link
        self.side = side
        self.present = present
        self.inbox = asyncio.Queue()
        self.closed = False

    # -- receiving ----------------------------------------------------------------------------------------
    async def _next(self):
        while True:
            msg = await self.inbox.get()
            out = self.present(msg)
            if out is not _SKIP:
                return out

    def __aiter__(self):
        return self

    async def __anext__(self):
        return await self._next()

    async def receive(self):          # quart
        return await self._next()

    # -- sending ------------------------------------------------------------------------------------------
    async def _send(self, data):
        link = self.link
        if not isinstance(data, (bytes, bytearray, memoryview)):
            raise TypeError('binary websocket message expected, got %r' % type(data))
        k = link.knobs[self.side]
        link.sent[self.side] += 1
        link.queues[self.side].put_nowait(bytes(data))
        await _wait(k.drain, k.rng)

    async def send_bytes(self, data):  # aiohttp
        await self._send(data)

    async def send(self, data=None, **kw):       # asyncwebsockets, quart; channels (keyword form)
        if kw:
            # AsyncWebsocketConsumer.send(text_data=None, bytes_data=None, close=False)
            unknown = set(kw) - {'text_data', 'bytes_data', 'close'}
            if unknown or data is not None:
                raise TypeError('send() got an unexpected keyword argument %r' % sorted(unknown))
            data = kw.get('bytes_data')
        await self._send(data)

    async def close(self, *a, **kw):
        self.closed = True


_SKIP = object()


def _present_aiohttp(msg):
    import aiohttp
    if isinstance(msg, tuple):
        kind, data = msg
        t = {'text': aiohttp.WSMsgType.TEXT, 'ping': aiohttp.WSMsgType.PING, 'pong': aiohttp.WSMsgType.PONG}[kind]
        return aiohttp.WSMessage(t, data, None)
    return aiohttp.WSMessage(aiohttp.WSMsgType.BINARY, msg, None)


def _present_wsproto(msg):
    from wsproto.events import BytesMessage, TextMessage, Ping, Pong
    if isinstance(msg, tuple):
        kind, data = msg
        if kind == 'text':
            return TextMessage(data=data)
        return (Ping if kind == 'ping' else Pong)(payload=data)
    return BytesMessage(data=msg)


def _present_plain(msg):
    # quart's receive() and a `websockets` connection: bytes for binary messages, str for text messages;
    # control frames never reach the application
    if isinstance(msg, tuple):
        return msg[1] if msg[0] == 'text' else _SKIP
    return msg


class GlueLink:
    framing = 'messages'

    def __init__(self, kind, rng, knobs_c=None, knobs_s=None, tap=None):
        assert kind in KINDS, kind
        self.kind = kind
        self.rng = rng
        self.tap = tap or Tap()
        self.knobs = {'c': knobs_c or Knobs(rng), 's': knobs_s or Knobs(rng)}
        self.broken = None
        self.write_fail_at = {}
        self.close_calls = {}
        self.sent = {'c': 0, 's': 0}
        self.delivered_msgs = {'c': 0, 's': 0}
        self.queues = {'c': asyncio.Queue(), 's': asyncio.Queue()}
        self.transports = {}
        self.tasks = {}
        self.glue_errors = []          # exceptions that ended a glue task (the transport's receive loop died)
        getattr(self, '_build_' + kind)()
        for side, other in (('c', 's'), ('s', 'c')):
            self.tasks['pump-' + side] = asyncio.ensure_future(self._pump(side, other))

    # ---- per kind -------------------------------------------------------------------------------------------
    def _watch(self, name, coro):
        t = asyncio.ensure_future(coro)
        self.tasks[name] = t

        def done(task):
            if task.cancelled():
                return
            e = task.exception()
            if e is not None:
                self.glue_errors.append((name, repr(e)))
        t.add_done_callback(done)
        return t

    def _build_aiohttp(self):
        from rsocket.transports.aiohttp_websocket import TransportAioHttpClient, TransportAioHttpWebsocket
        self.sockets = {'c': _End(self, 'c', _present_aiohttp), 's': _End(self, 's', _present_aiohttp)}
        self.transports['c'] = tapped(TransportAioHttpClient, self.tap, 'c', self)(None, self.sockets['c'])
        self.transports['s'] = tapped(TransportAioHttpWebsocket, self.tap, 's', self)(self.sockets['s'])
        self._watch('glue-s', self.transports['s'].handle_incoming_ws_messages())

    def _build_quart(self):
        from rsocket.transports.asyncwebsockets_transport import TransportAsyncWebsocketsClient
        qw = _install_quart_proxy()
        self.sockets = {'c': _End(self, 'c', _present_wsproto), 's': _End(self, 's', _present_plain)}
        self.transports['c'] = tapped(TransportAsyncWebsocketsClient, self.tap, 'c', self)(self.sockets['c'])
        self.transports['s'] = tapped(qw.TransportQuartWebsocket, self.tap, 's', self)()
        # the endpoint that is constructed on this transport from the same task inherits the context variable,
        # like a quart websocket handler does
        _quart_current.set(self.sockets['s'])
        self._watch('glue-s', self.transports['s'].handle_incoming_ws_messages())

    def _build_channels(self):
        from rsocket.transports.channels_transport import ChannelsTransport, AsyncRSocketConsumer
        self.sockets = {'c': _End(self, 'c', _present_plain), 's': _End(self, 's', _present_plain)}
        self.transports['c'] = tapped(ChannelsTransport, self.tap, 'c', self)(self.sockets['c'])
        consumer = AsyncRSocketConsumer()
        end = self.sockets['s']

        async def base_send(message):
            # what the ASGI server does with the consumer's outgoing events
            if message.get('type') == 'websocket.send' and message.get('bytes') is not None:
                await end._send(message['bytes'])

        consumer.base_send = base_send
        consumer.transport = self.transports['s'] = tapped(ChannelsTransport, self.tap, 's', self)(consumer)
        self.consumer = consumer

        async def dispatch():
            # the part of AsyncWebsocketConsumer.websocket_receive that turns an ASGI event into receive(...)
            while True:
                msg = await end._next()
                if isinstance(msg, str):
                    await consumer.receive(text_data=msg)
                else:
                    await consumer.receive(bytes_data=msg)
        self._watch('glue-s', dispatch())

        async def dispatch_c():
            # client role: ChannelsTransport has no receive loop of its own; messages are fed the way
            # AsyncRSocketConsumer.receive does
            t = self.transports['c']
            while True:
                msg = await self.sockets['c']._next()
                if isinstance(msg, (bytes, bytearray)) and msg:
                    async for frame in t._frame_parser.receive_data(msg, 0):
                        t._incoming_frame_queue.put_nowait(frame)
        self._watch('glue-c', dispatch_c())

    # ---- link interface -------------------------------------------------------------------------------------
    async def _pump(self, src, dst):
        k = self.knobs[src]
        try:
            while True:
                msg = await self.queues[src].get()
                await _wait(k.latency, k.rng)
                self.delivered_msgs[src] += 1
                target = self.transports[dst]
                if hasattr(target, 'rv_deliver') and not hasattr(target, 'send_frame'):
                    if isinstance(msg, bytes):
                        await target.rv_deliver(msg)       # a raw peer sits on this side
                else:
                    self.sockets[dst].inbox.put_nowait(msg)
        except asyncio.CancelledError:
            pass

    def idle(self):
        if not all(q.empty() for q in self.queues.values()):
            return False
        if not all(s.inbox.empty() for s in self.sockets.values()):
            return False
        for t in self.transports.values():
            q = getattr(t, '_outgoing_frame_queue', None)
            if q is not None and not q.empty():
                return False
        return True

    def delivered(self, side):
        return self.delivered_msgs[side]

    def closed_by(self, side):
        pass

    def cut(self, mode='error', spare=None):
        raise NotImplementedError('connection loss is not modelled on glue links')

    def stop(self):
        for t in self.tasks.values():
            t.cancel()
        for tr in self.transports.values():
            h = getattr(tr, '_message_handler', None)
            if h is not None:
                h.cancel()
